"""C07 -- built-in specifiers and operators have their documented geometric meaning.

Engine: bounded-exhaustive pose lattice x every geometric specifier / operator, each
evaluation judged by the independent reference model models/frames.py (own 3x3 matrices,
written from docs/reference/*.rst).  Two routes to the implementation:
  * "api":    the Python functions the Scenic compiler emits calls to (scenic.syntax.veneer),
              driven directly (about 0.5 ms per evaluation);
  * "source": the same cases written as real Scenic source text, one program per pose,
              compiled with scenic.scenarioFromString (covers syntax -> function plumbing).
Nothing is sampled: all objects have fixed properties, no scene is generated.
"""

import math
import traceback

from mc.explorer import HarnessError
from models import frames as fr

ID = "C07"
LEVEL = "exploration"

TOL = 1e-9
DEG = math.pi / 180.0

ANGLES = (0, 30, -45, 90, 135, 180)
OWN = tuple(
    (y, p, r)
    for y in ANGLES
    for p in ANGLES
    for r in ANGLES
    if (y != 0) + (p != 0) + (r != 0) <= 2
)  # 91 orientations
PARENTS = (
    (0, 0, 0),  # global
    (30, 0, 0),  # yaw only
    (135, 0, 0),  # yaw only
    (0, -45, 0),
    (135, 0, 30),
    (-45, 90, 0),  # gimbal-locked parent
    (0, 30, -45),
)
POSES = tuple((par, own) for par in PARENTS for own in OWN)  # 637
DIMS = ((1.0, 1.0, 1.0), (2.0, 1.0, 0.5))
XPOS = ((3.0, -2.0, 1.5), (-4.0, 1.25, -0.5))
EPOS = (-1.5, 4.0, 0.75)
QPOS = (0.5, -3.5, 2.25)
TPOS = (2.0, 5.0, -1.0)
X_CT = 0.004  # contactTolerance of the reference object
N_CT = 0.02  # contactTolerance of the new object
BY = 0.75
VOFF = (1.0, 3.0, 0.5)
VOFF2 = (1.0, 2.0, -0.5)
BASEOFF = (0.2, -0.1, -0.3)
SURF_Z = 2.0
BOX_TOP = 2.0  # BoxRegion centred at z = 1.5 with height 1

KINDS = ("number", "Orientation", "Vector", "OrientedPoint", "Object", "field")
# two fixed, fully 3-D (yaw, pitch and roll all non-zero), non-commuting orientation values
OA_DEG = (40, 25, -35)
OB_DEG = (-70, 50, 20)
OAM = fr.euler(*(a * DEG for a in OA_DEG))
OBM = fr.euler(*(a * DEG for a in OB_DEG))
F2_COEFF = (0.1, 0.2, 0.3)  # FLD2 at (x, y, z) = euler(0.1 x, 0.2 y, 0.3 z)
SRC_SPLIT = 3  # a source program carries one third of the operand-kind product cases

QUICK_SOURCE_PROGRAMS = 16
THOROUGH_SOURCE_PROGRAMS = 240


def rad(t):
    return tuple(a * DEG for a in t)


def yaw_only(par):
    return par[1] == 0 and par[2] == 0


def tilted(*triples):
    """Rotation matters: some pitch/roll is non-zero."""
    return any(t[1] != 0 or t[2] != 0 for t in triples)


# ------------------------------------------------------------------ items


def make_item(idx, i, xp, xd, k):
    n = len(POSES)
    xpar, xown = POSES[i]
    epar, eown = POSES[(i * 5 + 17 + 211 * k) % n]
    npar, nown = POSES[(i * 11 + 101 + 89 * k) % n]
    fo = OWN[(i * 3 + 7 + 31 * k) % len(OWN)]
    return {
        "idx": idx,
        "xpos": XPOS[xp],
        "xpar": xpar,
        "xown": xown,
        "xdims": DIMS[xd],
        "epar": epar,
        "eown": eown,
        "npar": npar,
        "nown": nown,
        "ndims": DIMS[(xd + 1 + k) % 2],
        "fo": fo,
        "route": "api",
    }


def plan(tier):
    items = []
    if tier == "quick":
        for i in range(len(POSES)):
            items.append(make_item(len(items), i, i % 2, (i // 2) % 2, 0))
    else:
        for k in range(3):
            for xp in range(2):
                for xd in range(2):
                    for i in range(len(POSES)):
                        items.append(make_item(len(items), i, xp, xd, k))
    return items


# ------------------------------------------------------------------ text helpers


def lit(v):
    if isinstance(v, (tuple, list)):
        return "(" + ", ".join(lit(x) for x in v) + ")"
    if isinstance(v, float):
        return repr(v)
    return str(v)


def ori_expr(angles_rad):
    return "Orientation.fromEuler(%s, %s, %s)" % tuple(repr(a) for a in angles_rad)


class Spec:
    """A specifier in both renderings: Python call emitted by the compiler / Scenic syntax."""

    def __init__(self, api, src):
        self.api = api
        self.src = src


def s_with(prop, val):
    return Spec("With(%r, %s)" % (prop, val), "with %s %s" % (prop, val))


def s_at(v):
    return Spec("At(%s)" % v, "at %s" % v)


DIR_FUNCS = {
    "left of": "LeftSpec",
    "right of": "RightSpec",
    "ahead of": "Ahead",
    "behind": "Behind",
    "above": "Above",
    "below": "Below",
}


def s_dir(direction, x, d=None):
    if d is None:
        return Spec("%s(%s)" % (DIR_FUNCS[direction], x), "%s %s" % (direction, x))
    return Spec(
        "%s(%s, dist=%s)" % (DIR_FUNCS[direction], x, d), "%s %s by %s" % (direction, x, d)
    )


def s_simple(func, syntax, arg):
    return Spec("%s(%s)" % (func, arg), "%s %s" % (syntax, arg))


def s_appfacing(h, frm=None):
    if frm is None:
        return Spec("ApparentlyFacing(%s)" % h, "apparently facing %s" % h)
    return Spec(
        "ApparentlyFacing(%s, fromPt=%s)" % (h, frm), "apparently facing %s from %s" % (h, frm)
    )


def s_beyond(p, off, frm=None):
    if frm is None:
        return Spec("Beyond(%s, %s)" % (p, off), "beyond %s by %s" % (p, off))
    return Spec(
        "Beyond(%s, %s, fromPt=%s)" % (p, off, frm), "beyond %s by %s from %s" % (p, off, frm)
    )


def s_following(f, dist, frm=None):
    if frm is None:
        return Spec("Following(%s, %s)" % (f, dist), "following %s for %s" % (f, dist))
    return Spec(
        "Following(%s, %s, fromPt=%s)" % (f, dist, frm),
        "following %s from %s for %s" % (f, frm, dist),
    )


def s_offsetalong(d, v):
    return Spec("OffsetAlongSpec(%s, %s)" % (d, v), "offset along %s by %s" % (d, v))


class Bundle:
    """Properties common to many new objects: explicit `with` specifiers on the api route, a
    Scenic class with those property defaults on the source route (keeps the text short: the
    PEG parser costs about 1 ms per token)."""

    def __init__(self, name, base, specs):
        self.name = name
        self.base = base
        self.specs = specs  # list of (property, value text)

    def class_text(self):
        return "class %s(%s):\n" % (self.name, self.base) + "".join(
            "    %s: %s\n" % (p, v) for p, v in self.specs
        )


def new_expr(cls, specs, bundle=None):
    extra = [] if bundle is None else [s_with(p, v) for p, v in bundle.specs]
    api = "new(%s, [%s])" % (cls, ", ".join(s.api for s in list(specs) + extra))
    src = "new %s %s" % (cls if bundle is None else bundle.name, ", ".join(s.src for s in specs))
    return api, src


# ------------------------------------------------------------------ cases


class Case:
    __slots__ = (
        "key", "construct", "api", "src", "read", "checks", "nontrivial", "api_only",
        "triple", "discriminating", "expect_error", "rot",
    )

    def __init__(self, key, construct, api, src, read, checks, nontrivial, api_only=False):
        self.key = key
        self.construct = construct
        self.api = api
        self.src = src
        self.read = read  # "entity" | "scalar" | "vector" | "ori"
        self.checks = checks  # list of fn(obs) -> None | (signature, message) | "skip"
        self.nontrivial = nontrivial
        self.api_only = api_only
        self.triple = None  # "operator | left kind | right kind" of the operand-kind product
        self.discriminating = False  # swapping the operands / the product order changes the answer
        self.expect_error = False  # the reference says the form is rejected
        self.rot = None  # product cases are spread over the source programs by this index


SKIP = "skip"


def fmt(v):
    if isinstance(v, tuple) and v and isinstance(v[0], tuple):
        return "[" + "; ".join(fmt(r) for r in v) + "]"
    if isinstance(v, tuple):
        return "(" + ", ".join("%.12g" % x for x in v) + ")"
    if isinstance(v, float):
        return "%.12g" % v
    return str(v)


def chk_pos(sig, exp):
    def f(obs):
        got = obs["pos"]
        if fr.vdist(got, exp) > TOL:
            return (sig, "position: expected %s, observed %s" % (fmt(exp), fmt(got)))

    return f


def chk_mat(sig, field, exp, what):
    def f(obs):
        got = obs[field]
        if fr.mdiff(got, exp) > TOL:
            return (sig, "%s: expected matrix %s, observed %s" % (what, fmt(exp), fmt(got)))

    return f


def chk_local_angles(sig, parent_M, exp):
    """parentOrientation . euler(yaw, pitch, roll) of the new entity must be `exp`."""

    def f(obs):
        got = fr.mmul(parent_M, fr.euler(*obs["ypr"]))
        if fr.mdiff(got, exp) > TOL:
            return (
                sig,
                "yaw/pitch/roll %s in the specified parent frame give %s, expected global orientation %s"
                % (fmt(obs["ypr"]), fmt(got), fmt(exp)),
            )

    return f


def chk_scalar(sig, exp, what):
    def f(obs):
        if abs(obs["value"] - exp) > TOL:
            return (sig, "%s: expected %s, observed %s" % (what, fmt(exp), fmt(obs["value"])))

    return f


def chk_angle(sig, exp, what):
    def f(obs):
        if fr.angdiff(obs["value"], exp) > TOL:
            return (
                sig,
                "%s: expected %s (mod 2pi), observed %s" % (what, fmt(exp), fmt(obs["value"])),
            )

    return f


def chk_vec(sig, exp, what):
    def f(obs):
        if fr.vdist(obs["value"], exp) > TOL:
            return (sig, "%s: expected %s, observed %s" % (what, fmt(exp), fmt(obs["value"])))

    return f


class Builder:
    """Builds, for one item, the prelude and the list of cases with their expected values."""

    def __init__(self, item):
        self.item = it = item
        g = fr
        self.xpos, self.xdims = tuple(it["xpos"]), tuple(it["xdims"])
        self.xpar, self.xown = rad(it["xpar"]), rad(it["xown"])
        self.epar, self.eown = rad(it["epar"]), rad(it["eown"])
        self.npar, self.nown = rad(it["npar"]), rad(it["nown"])
        self.fo = rad(it["fo"])
        self.ndims = tuple(it["ndims"])
        self.XPM, self.XM = g.euler(*self.xpar), g.orientation_of(self.xpar, self.xown)
        self.EPM, self.EM = g.euler(*self.epar), g.orientation_of(self.epar, self.eown)
        self.NPM, self.NM = g.euler(*self.npar), g.orientation_of(self.npar, self.nown)
        self.FOM = g.euler(*self.fo)
        self.fyaw = self.fo[0] if it["fo"][0] != 0 else 30 * DEG
        self.h1 = self.xown[0] if it["xown"][0] != 0 else -45 * DEG
        self.h2 = self.nown[0] if it["nown"][0] != 0 else 135 * DEG
        self.x_tilt = tilted(it["xpar"], it["xown"]) or it["xpar"] != (0, 0, 0)
        self.e_tilt = tilted(it["epar"], it["eown"]) or it["epar"] != (0, 0, 0)
        self.n_tilt = tilted(it["npar"], it["nown"]) or it["npar"] != (0, 0, 0)
        self.np_nonglobal = tuple(it["npar"]) != (0, 0, 0)
        self.f_tilt = tilted(it["fo"])
        # global parent and own pitch beyond +-90 degrees: (yaw, pitch, roll) is then not the
        # canonical Euler triple of the orientation
        self.flipped_global = tuple(it["xpar"]) == (0, 0, 0) and math.cos(self.xown[1]) < -1e-9
        self.e_flipped = tuple(it["epar"]) == (0, 0, 0) and math.cos(self.eown[1]) < -1e-9
        self.cases = []
        self.triples_undefined = {}
        self.unspecified = {}
        self.skipped = {}
        self.prelude = self.make_prelude()
        self.build()

    # -- prelude -------------------------------------------------------------
    def make_prelude(self):
        def pose_specs(pos, par, own, dims=None, ct=None):
            specs = [
                s_at(lit(pos)),
                s_with("parentOrientation", ori_expr(par)),
                s_with("yaw", repr(own[0])),
                s_with("pitch", repr(own[1])),
                s_with("roll", repr(own[2])),
            ]
            if dims is not None:
                specs += [
                    s_with("width", repr(dims[0])),
                    s_with("length", repr(dims[1])),
                    s_with("height", repr(dims[2])),
                ]
            if ct is not None:
                specs.append(s_with("contactTolerance", repr(ct)))
                # a compiled scenario rejects statically intersecting objects; poses overlap freely here
                specs.append(s_with("allowCollisions", "True"))
            return specs

        pre = []  # (api statement, source statement)

        def define(name, api, src):
            pre.append(("%s = %s" % (name, api), "%s = %s" % (name, src)))

        for name, val in (("T", TPOS), ("Q", QPOS), ("VO", VOFF), ("VO2", VOFF2)):
            define(name, lit(val), lit(val))
        define("X", *new_expr("Object", pose_specs(self.xpos, self.xpar, self.xown, self.xdims, X_CT)))
        define("XP", *new_expr("OrientedPoint", pose_specs(self.xpos, self.xpar, self.xown)))
        define("E", *new_expr("Object", pose_specs(EPOS, self.epar, self.eown, (1.0, 1.0, 1.0), X_CT)))
        pre.append(("ego(E)", "ego = E"))
        define("FO", ori_expr(self.fo), ori_expr(self.fo))
        define("FLD", 'VectorField("c07", lambda pos: FO)', 'VectorField("c07", lambda pos: FO)')
        define("NP", ori_expr(self.npar), ori_expr(self.npar))
        define("EP", *new_expr("OrientedPoint", pose_specs(EPOS, self.epar, self.eown)))
        define("OA", ori_expr(rad(OA_DEG)), ori_expr(rad(OA_DEG)))
        define("OB", ori_expr(rad(OB_DEG)), ori_expr(rad(OB_DEG)))
        define("VEC", "Vector%s" % lit(VOFF), "Vector%s" % lit(VOFF))
        f2 = 'VectorField("c07v", lambda pos: Orientation.fromEuler(%r * pos[0], %r * pos[1], %r * pos[2]))' % F2_COEFF
        define("FLD2", f2, f2)
        fy = "Orientation.fromEuler(%r, 0, 0)" % self.fyaw
        define("FOY", fy, fy)
        define("FLDY", 'VectorField("c07y", lambda pos: FOY)', 'VectorField("c07y", lambda pos: FOY)')
        mesh = (
            "trimesh.Trimesh(vertices=[[-20, -20, %r], [20, -20, %r], [20, 20, %r], [-20, 20, %r]], "
            "faces=[[0, 1, 2], [0, 2, 3]])" % ((SURF_Z,) * 4)
        )
        for name, field in (("SURFY", "FLDY"), ("SURFT", "FLD")):
            e = "MeshSurfaceRegion(%s, centerMesh=False, orientation=%s)" % (mesh, field)
            define(name, e, e)
        b = "BoxRegion(dimensions=(40, 40, 1), position=(0, 0, 1.5))"
        define("BOX", b, b)
        d = self.ndims
        dim = [("width", repr(d[0])), ("length", repr(d[1])), ("height", repr(d[2])), ("contactTolerance", repr(N_CT)), ("allowCollisions", "True")]
        pose = [("parentOrientation", "NP"), ("yaw", repr(self.nown[0])), ("pitch", repr(self.nown[1])), ("roll", repr(self.nown[2]))]
        self.AO = Bundle("AO", "Object", [("allowCollisions", "True")])
        self.ND = Bundle("ND", "Object", dim)
        self.NDP = Bundle("NDP", "Object", dim + pose)
        self.QP = Bundle("QP", "OrientedPoint", [("parentOrientation", "NP")])
        for bd in (self.AO, self.ND, self.NDP, self.QP):
            pre.append((None, bd.class_text().rstrip("\n")))
        return pre

    # -- helpers -------------------------------------------------------------
    def add(self, key, construct, api, src, read, checks, nontrivial, api_only=False):
        self.cases.append(Case(key, construct, api, src, read, checks, nontrivial, api_only))

    def unspec(self, what, n=1):
        self.unspecified[what] = self.unspecified.get(what, 0) + n

    def skip(self, what, n=1):
        self.skipped[what] = self.skipped.get(what, 0) + n

    # -- all constructs --------------------------------------------------------
    def build(self):
        self.build_directional()
        self.build_facing()
        self.build_position_specifiers()
        self.build_on()
        self.build_side_operators()
        self.build_vector_operators()
        self.build_scalar_operators()

    def build_directional(self):
        g = fr
        for direction in g.DIRECTIONS:
            tag = direction.replace(" ", "-")
            axis, sign = g.DIRECTIONS[direction]
            for d in (None, BY):
                dtxt = None if d is None else repr(d)
                dk = "nod" if d is None else "by"
                # reference = Object
                gap = N_CT / 2 if d is None else d
                exp = g.directional_position(direction, self.xpos, self.XM, self.xdims, self.ndims, gap)
                api, src = new_expr("Object", [s_dir(direction, "X", dtxt)], self.ND)
                self.add(
                    "%s:object:%s" % (tag, dk),
                    direction,
                    api,
                    src,
                    "entity",
                    [
                        chk_mat("%s:object:parentOrientation" % tag, "parent", self.XM, "inherited parentOrientation"),
                        chk_mat("%s:object:orientation" % tag, "ori", self.XM, "orientation"),
                        self.chk_gap(direction, "%s:object:gap" % tag, self.xdims, gap),
                        chk_pos("%s:object:position" % tag, exp),
                    ],
                    self.x_tilt,
                )
                # reference = OrientedPoint (a box of size 0; no contact tolerance involved)
                gap = 0.0 if d is None else d
                exp = g.directional_position(direction, self.xpos, self.XM, (0, 0, 0), self.ndims, gap)
                api, src = new_expr("Object", [s_dir(direction, "XP", dtxt)], self.ND)
                self.add(
                    "%s:opoint:%s" % (tag, dk),
                    direction,
                    api,
                    src,
                    "entity",
                    [
                        chk_mat("%s:opoint:parentOrientation" % tag, "parent", self.XM, "inherited parentOrientation"),
                        chk_mat("%s:opoint:orientation" % tag, "ori", self.XM, "orientation"),
                        self.chk_gap(direction, "%s:opoint:gap" % tag, (0, 0, 0), gap),
                        chk_pos("%s:opoint:position" % tag, exp),
                    ],
                    self.x_tilt,
                )
                # reference = vector: the side midpoint of the NEW object (own orientation) is
                # at the vector, moved further by D
                off = [0.0, 0.0, 0.0]
                off[axis] = sign * (gap + self.ndims[axis] / 2)
                exp = g.to_global(TPOS, self.NM, tuple(off))
                api, src = new_expr("Object", [s_dir(direction, "T", dtxt)], self.NDP)
                self.add(
                    "%s:vector:%s" % (tag, dk),
                    direction,
                    api,
                    src,
                    "entity",
                    [
                        chk_mat("%s:vector:parentOrientation" % tag, "parent", self.NPM, "parentOrientation (must be untouched)"),
                        chk_mat("%s:vector:orientation" % tag, "ori", self.NM, "orientation"),
                        self.chk_side_midpoint(direction, "%s:vector:side-midpoint" % tag, gap),
                        chk_pos("%s:vector:position" % tag, exp),
                    ],
                    self.n_tilt,
                )
            # `by <vector>` is accepted by the implementation but not described in the reference
            self.unspec("directional:by-vector", 3)

    def chk_gap(self, direction, sig, ref_dims, gap):
        """The documented statement itself, measured on the observed pose of the new object."""

        def f(obs):
            cs = fr.corners(obs["pos"], obs["ori"], self.ndims)
            got, others = fr.directional_gap(direction, self.xpos, self.XM, ref_dims, cs, obs["pos"])
            if abs(got - gap) > TOL or max(abs(o) for o in others) > TOL:
                return (
                    sig,
                    "gap between the bounding boxes along the reference's local axis: expected %s, observed %s; "
                    "other two local offsets (expected 0): %s" % (fmt(gap), fmt(got), fmt(others)),
                )

        return f

    def chk_side_midpoint(self, direction, sig, gap):
        axis, sign = fr.DIRECTIONS[direction]

        def f(obs):
            mid = fr.side_midpoint_for_vector_form(direction, obs["pos"], obs["ori"], self.ndims)
            # the midpoint must lie `gap` further in the direction, seen from the vector
            loc = fr.to_local(TPOS, obs["ori"], mid)
            exp = [0.0, 0.0, 0.0]
            exp[axis] = sign * gap
            if fr.vdist(loc, tuple(exp)) > TOL:
                return (
                    sig,
                    "midpoint of the facing side of the new object relative to the vector, in the object's frame: "
                    "expected %s, observed %s" % (fmt(tuple(exp)), fmt(loc)),
                )

        return f

    # -- facing family ---------------------------------------------------------
    def build_facing(self):
        g = fr
        base = [s_at("Q")]
        nt = self.np_nonglobal or tilted(self.item["npar"])

        def facing_case(key, arg, target, nontrivial, src_arg=None):
            spec = Spec("Facing(%s)" % arg, "facing %s" % (arg if src_arg is None else src_arg))
            api, src = new_expr("OrientedPoint", base + [spec], self.QP)
            self.add(
                "facing:" + key,
                "facing",
                api,
                src,
                "entity",
                [
                    chk_mat("facing:%s:parentOrientation" % key, "parent", self.NPM, "parentOrientation (must be untouched)"),
                    chk_mat("facing:%s:global-orientation" % key, "ori", target, "global orientation"),
                    chk_local_angles("facing:%s:local-angles" % key, self.NPM, target),
                    chk_pos("facing:%s:position" % key, QPOS),
                ],
                nontrivial,
            )

        facing_case("heading", repr(self.fyaw), g.rot_z(self.fyaw), nt)
        facing_case("euler-tuple", lit(self.fo), self.FOM, nt or self.f_tilt)
        facing_case("orientation", "FO", self.FOM, nt or self.f_tilt)
        facing_case("field", "FLD", self.FOM, nt or self.f_tilt)
        # <heading> relative to <field>: "starting in the second direction and then rotating
        # according to the first"
        facing_case(
            "field-relative",
            "RelativeTo(%r, FLD)" % self.h1,
            g.mmul(self.FOM, g.rot_z(self.h1)),
            nt or self.f_tilt,
            src_arg="(%r relative to FLD)" % self.h1,
        )

        strict = yaw_only(self.item["npar"])
        for away in (False, True):
            for kind, targ, tpos in (("vector", "T", TPOS), ("object", "X", self.xpos)):
                d = g.vsub(tpos, QPOS)
                if away:
                    d = g.vscale(d, -1.0)
                aim = g.vadd(QPOS, d)  # a point in the direction to be faced
                # -- yaw only
                name = "facing-away-from" if away else "facing-toward"
                func = "FacingAwayFrom" if away else "FacingToward"
                syntax = "facing away from" if away else "facing toward"
                api, src = new_expr("OrientedPoint", base + [s_simple(func, syntax, targ)], self.QP)
                loc = g.to_local(QPOS, self.NPM, aim)
                if math.hypot(loc[0], loc[1]) < 1e-6:
                    self.skip("facing-toward:direction-along-parent-z")
                else:
                    self.add(
                        "%s:%s" % (name, kind),
                        syntax,
                        api,
                        src,
                        "entity",
                        [
                            chk_mat("%s:parentOrientation" % name, "parent", self.NPM, "parentOrientation (must be untouched)"),
                            self.chk_yaw_toward(name, aim, strict),
                            self.chk_pitch_roll_zero(name, pitch=True),
                            chk_pos("%s:position" % name, QPOS),
                        ],
                        nt,
                    )
                    if not strict:
                        self.unspec("facing-toward:tilted-parent(two readings accepted)")
                # -- yaw and pitch
                name = "facing-directly-away-from" if away else "facing-directly-toward"
                func = "FacingDirectlyAwayFrom" if away else "FacingDirectlyToward"
                syntax = "facing directly away from" if away else "facing directly toward"
                api, src = new_expr("OrientedPoint", base + [s_simple(func, syntax, targ)], self.QP)
                self.add(
                    "%s:%s" % (name, kind),
                    syntax,
                    api,
                    src,
                    "entity",
                    [
                        chk_mat("%s:parentOrientation" % name, "parent", self.NPM, "parentOrientation (must be untouched)"),
                        self.chk_forward(name, g.vunit(d)),
                        self.chk_pitch_roll_zero(name, pitch=False),
                        chk_pos("%s:position" % name, QPOS),
                    ],
                    True,  # the pitch always matters: the positions differ in z
                )

        # apparently facing H [from V]
        for kind, frm, fpos in (("vector", "T", TPOS), ("object", "X", self.xpos), ("ego", None, EPOS)):
            api, src = new_expr("OrientedPoint", base + [s_appfacing(repr(self.h2), frm)], self.QP)
            self.add(
                "apparently-facing:" + kind,
                "apparently facing",
                api,
                src,
                "entity",
                [
                    chk_mat("apparently-facing:parentOrientation", "parent", self.NPM, "parentOrientation (must be untouched)"),
                    self.chk_apparently_facing(fpos, self.h2, strict),
                    self.chk_pitch_roll_zero("apparently-facing", pitch=True),
                    chk_pos("apparently-facing:position", QPOS),
                ],
                nt,
            )
            if not strict:
                self.unspec("apparently-facing:tilted-parent(two readings accepted)")

    def chk_pitch_roll_zero(self, name, pitch):
        def f(obs):
            y, p, r = obs["ypr"]
            if (pitch and abs(p) > TOL) or abs(r) > TOL:
                return (
                    name + ":unspecified-angle-changed",
                    "pitch/roll not specified by this specifier must keep their default 0: observed pitch %s roll %s"
                    % (fmt(p), fmt(r)),
                )
            got = fr.mmul(self.NPM, fr.euler(y, p, r))
            if fr.mdiff(got, obs["ori"]) > TOL:
                return (
                    name + ":orientation-inconsistent",
                    "orientation %s is not parentOrientation . euler(yaw,pitch,roll) = %s" % (fmt(obs["ori"]), fmt(got)),
                )

        return f

    def chk_yaw_toward(self, name, aim, strict):
        def f(obs):
            yaw = obs["ypr"][0]
            a = fr.yaw_facing_in_parent(self.NPM, QPOS, aim)
            ok_a = fr.angdiff(yaw, a) <= TOL
            if strict:
                # parent is a pure yaw: the global heading must be the azimuth of the target
                M = fr.mmul(self.NPM, fr.rot_z(yaw))
                b = fr.azimuth(QPOS, aim)
                ok_b = fr.angdiff(fr.yaw_of(M), b) <= TOL
                if not (ok_a and ok_b):
                    return (
                        name + ":yaw",
                        "global heading: expected azimuth of the target %s, observed %s (yaw %s in the parent frame, expected %s)"
                        % (fmt(b), fmt(fr.yaw_of(M)), fmt(yaw), fmt(a)),
                    )
                return None
            M = fr.mmul(self.NPM, fr.rot_z(yaw))
            ok_b = (not fr.is_gimbal(M)) and fr.angdiff(fr.yaw_of(M), fr.azimuth(QPOS, aim)) <= TOL
            if not (ok_a or ok_b):
                return (
                    name + ":yaw",
                    "yaw %s in a tilted parent frame is neither the yaw that turns the forward axis closest to the target (%s) "
                    "nor one giving a global heading equal to the azimuth of the target" % (fmt(yaw), fmt(a)),
                )

        return f

    def chk_forward(self, name, direction):
        def f(obs):
            fw = fr.forward(obs["ori"])
            if fr.vdist(fw, direction) > TOL:
                return (
                    name + ":forward-axis",
                    "forward (local +Y) axis: expected %s, observed %s" % (fmt(direction), fmt(fw)),
                )

        return f

    def chk_apparently_facing(self, fpos, h, strict):
        def f(obs):
            yaw = obs["ypr"][0]
            los = fr.azimuth(fpos, QPOS)
            M = fr.mmul(self.NPM, fr.rot_z(yaw))
            ignoring = fr.angdiff(yaw, los + h) <= TOL
            sig = "apparently-facing:ignores-parentOrientation" if ignoring else "apparently-facing:heading"
            if strict:
                got = fr.yaw_of(M) - los
                if fr.angdiff(got, h) > TOL:
                    return (
                        sig,
                        "heading with respect to the line of sight: expected %s, observed %s "
                        "(yaw %s set in a parent frame with yaw %s; line of sight azimuth %s)"
                        % (fmt(h), fmt(got), fmt(yaw), fmt(self.npar[0]), fmt(los)),
                    )
                return None
            d = fr.mapply(fr.mT(self.NPM), fr.vsub(QPOS, fpos))
            ok_a = math.hypot(d[0], d[1]) > 1e-6 and fr.angdiff(yaw, math.atan2(-d[0], d[1]) + h) <= TOL
            ok_b = (not fr.is_gimbal(M)) and fr.angdiff(fr.yaw_of(M) - los, h) <= TOL
            if not (ok_a or ok_b):
                return (
                    sig,
                    "yaw %s in a tilted parent frame gives neither heading %s w.r.t. the line of sight measured in the "
                    "parent frame nor in the global frame (global: %s)" % (fmt(yaw), fmt(h), fmt(fr.yaw_of(M) - los)),
                )

        return f

    # -- beyond / offset / following ------------------------------------------
    def build_position_specifiers(self):
        g = fr
        for okind, off, otxt in (("scalar", 2.0, "2.0"), ("vector", VOFF, "VO")):
            offv = (0.0, off, 0.0) if okind == "scalar" else off
            for kind, frm, fpos, fM in (
                ("vector", lit(self.xpos), self.xpos, None),
                ("opoint", "XP", self.xpos, self.XM),
                ("object", "X", self.xpos, self.XM),
                ("ego", None, EPOS, self.EM),
            ):
                if g.horizontal_degenerate(fpos, TPOS, 1e-6):
                    self.skip("beyond:vertical-line-of-sight")
                    continue
                exp = g.beyond_position(TPOS, offv, fpos)
                expP = fM if fM is not None else g.I3
                api, src = new_expr("Object", [s_beyond("T", otxt, frm)], self.AO)
                self.add(
                    "beyond:%s:%s" % (okind, kind),
                    "beyond",
                    api,
                    src,
                    "entity",
                    [
                        chk_pos("beyond:position", exp),
                        self.chk_beyond_parent(kind, expP),
                    ],
                    True,  # the line of sight is never axis-aligned (all positions differ in x, y, z)
                )

        # offset by (specifier): local frame of ego
        for key, v, vt in (("a", VOFF2, "VO2"), ("b", VOFF, "VO")):
            api, src = new_expr("Object", [Spec("OffsetBy(%s)" % vt, "offset by %s" % vt)], self.AO)
            self.add(
                "offset-by:" + key,
                "offset by",
                api,
                src,
                "entity",
                [
                    chk_pos("offset-by:position", g.to_global(EPOS, self.EM, v)),
                    chk_mat("offset-by:parentOrientation", "parent", self.EM, "parentOrientation (ego's orientation)"),
                    chk_mat("offset-by:orientation", "ori", self.EM, "orientation"),
                ],
                self.e_tilt,
            )
        # offset along (specifier): frame centred at ego, oriented along the direction
        for key, dtxt, dM, nt in (
            ("heading", repr(self.fyaw), g.rot_z(self.fyaw), True),
            ("orientation", "FO", self.FOM, True),
            ("field", "FLD", self.FOM, True),
        ):
            api, src = new_expr("Object", [s_offsetalong(dtxt, "VO2")], self.AO)
            self.add(
                "offset-along-spec:" + key,
                "offset along (specifier)",
                api,
                src,
                "entity",
                [
                    chk_pos("offset-along-spec:%s:position" % key, g.to_global(EPOS, dM, VOFF2)),
                    chk_mat("offset-along-spec:parentOrientation", "parent", self.EM, "parentOrientation (ego's orientation)"),
                ],
                nt,
            )
        # following (constant field)
        for key, frm, start in (("from", "T", TPOS), ("ego", None, EPOS)):
            for dist in (3.0, 12.5):
                api, src = new_expr("Object", [s_following("FLD", repr(dist), frm)], self.AO)
                self.add(
                    "following:%s:%s" % (key, dist),
                    "following",
                    api,
                    src,
                    "entity",
                    [
                        chk_pos("following:position", g.follow_constant_field(start, self.FOM, dist)),
                        chk_mat("following:parentOrientation", "parent", self.FOM, "parentOrientation (field orientation)"),
                    ],
                    True,
                )

    def chk_beyond_parent(self, kind, expP):
        def f(obs):
            if fr.mdiff(obs["parent"], expP) > TOL:
                sig = "beyond:parentOrientation"
                if kind != "vector" and fr.mdiff(obs["parent"], fr.I3) <= TOL:
                    sig = "beyond:parentOrientation-not-inherited"
                return (
                    sig,
                    "parentOrientation: expected the orientation of the `from` %s %s, observed %s"
                    % (kind, fmt(expP), fmt(obs["parent"])),
                )

        return f

    # -- on --------------------------------------------------------------------
    def build_on(self):
        g = fr
        h = self.ndims[2]
        for key, bo in (("default-base", None), ("custom-base", BASEOFF)):
            specs = [Spec("On(T)", "on T")]
            if bo is not None:
                specs.append(s_with("baseOffset", lit(bo)))
            base = bo if bo is not None else (0.0, 0.0, -h / 2)
            api, src = new_expr("Object", specs, self.NDP)
            self.add(
                "on:vector:" + key,
                "on",
                api,
                src,
                "entity",
                [
                    self.chk_on_vector(base),
                    chk_mat("on:vector:parentOrientation", "parent", self.NPM, "parentOrientation (must be untouched)"),
                ],
                self.n_tilt,
            )
        # in which frame baseOffset and the contactTolerance/2 offset are applied is not stated
        self.unspec("on:direction-of-contact-offset", 2)

        p_above = (QPOS[0], QPOS[1], 7.0)
        p_below = (QPOS[0], QPOS[1], -7.0)
        for key, p in (("above", p_above), ("below", p_below)):
            # flat surface whose preferred orientation is a pure yaw: every reading agrees
            api, src = new_expr("Object", [s_at(lit(p)), Spec("On(SURFY)", "on SURFY")], self.ND)
            self.add(
                "on:surface-yaw:" + key,
                "on",
                api,
                src,
                "entity",
                [
                    chk_pos("on:surface:position", (p[0], p[1], SURF_Z + N_CT / 2 + h / 2)),
                    chk_mat("on:surface:parentOrientation", "parent", g.rot_z(self.fyaw), "parentOrientation (preferred orientation)"),
                ],
                True,
            )
            # tilted preferred orientation: only parentOrientation is stated unambiguously
            api, src = new_expr("Object", [s_at(lit(p)), Spec("On(SURFT)", "on SURFT")], self.ND)
            self.add(
                "on:surface-tilted:" + key,
                "on",
                api,
                src,
                "entity",
                [
                    chk_mat("on:surface:parentOrientation", "parent", self.FOM, "parentOrientation (preferred orientation)"),
                ]
                + ([] if self.f_tilt else [chk_pos("on:surface:position", (p[0], p[1], SURF_Z + N_CT / 2 + h / 2))]),
                self.f_tilt,
            )
            if self.f_tilt:
                self.unspec("on:position-on-tilted-preferred-orientation")
        # volume without preferred orientation, projected straight down
        api, src = new_expr("Object", [s_at(lit(p_above)), Spec("On(BOX)", "on BOX")], self.ND)
        self.add(
            "on:volume:above",
            "on",
            api,
            src,
            "entity",
            [
                chk_pos("on:volume:position", (p_above[0], p_above[1], BOX_TOP + N_CT / 2 + h / 2)),
                chk_mat("on:volume:parentOrientation", "parent", g.I3, "parentOrientation (default)"),
            ],
            False,
        )

    def chk_on_vector(self, base):
        def f(obs):
            b = fr.vadd(obs["pos"], base)
            got = fr.vdist(b, TPOS)
            if abs(got - N_CT / 2) > TOL:
                return (
                    "on:vector:base-distance",
                    "distance between the base (position + baseOffset = %s) and the vector: expected contactTolerance/2 = %s, observed %s"
                    % (fmt(b), fmt(N_CT / 2), fmt(got)),
                )

        return f

    # -- operators -------------------------------------------------------------
    def build_side_operators(self):
        for name in fr.SIDE_OPS:
            func = "".join(w.capitalize() for w in name.split(" "))
            tag = name.replace(" ", "-")
            self.add(
                "side:" + tag,
                "side operators",
                "%s(X)" % func,
                "%s of X" % name,
                "entity",
                [
                    chk_pos("side-op:%s:position" % tag, fr.side_point(self.xpos, self.XM, self.xdims, name)),
                    chk_mat("side-op:%s:orientation" % tag, "ori", self.XM, "orientation (inherited from the Object)"),
                ],
                self.x_tilt,
            )

    # -- operand kinds ----------------------------------------------------------
    # Every binary orientation / heading / position operator is evaluated over the product
    # {kind of the left operand} x {kind of the right operand}.  The two sides always carry
    # different values: left = h1 / OA / VEC / XP / X / FLD, right = h2 / OB / T / EP / E / FLD2.

    def field2_at(self, pos):
        """Model of the position-dependent field FLD2 of the prelude."""
        return fr.euler(F2_COEFF[0] * pos[0], F2_COEFF[1] * pos[1], F2_COEFF[2] * pos[2])

    def entity_direction(self, side):
        """An OrientedPoint "can be used in any context where a heading is expected"
        (data.rst): the reference does not say whether a 3-D direction operator then sees its
        full orientation or its heading only, so both readings are accepted.  The ORDER of a
        composition is stated either way.  Returns None if the heading is ill-defined."""
        M = self.XM if side == "L" else self.EM
        if fr.is_gimbal(M):
            return None
        return [M, fr.rot_z(fr.yaw_of(M))]

    def direction_operand(self, kind, side):
        """(text, list of accepted matrices or None) of a direction-valued operand."""
        if kind == "number":
            h = self.h1 if side == "L" else self.h2
            return repr(h), [fr.rot_z(h)]
        if kind == "Orientation":
            return ("OA", [OAM]) if side == "L" else ("OB", [OBM])
        if kind == "field":
            return ("FLD", [self.FOM]) if side == "L" else ("FLD2", [self.field2_at(QPOS)])
        if kind == "OrientedPoint":
            return ("XP" if side == "L" else "EP"), self.entity_direction(side)
        if kind == "Object":
            return ("X" if side == "L" else "E"), self.entity_direction(side)
        raise HarnessError("no direction operand of kind " + kind)

    def point_operand(self, kind, side):
        if kind == "Vector":
            return ("T", TPOS) if side == "L" else ("Q", QPOS)
        if kind == "OrientedPoint":
            return ("XP", self.xpos) if side == "L" else ("EP", EPOS)
        if kind == "Object":
            return ("X", self.xpos) if side == "L" else ("E", EPOS)
        raise HarnessError("no point operand of kind " + kind)

    def undefined(self, op, lk, rk):
        t = "%s | %s | %s" % (op, lk, rk)
        self.triples_undefined[t] = self.triples_undefined.get(t, 0) + 1

    def add_triple(self, op, lk, rk, key, construct, api, src, read, checks, nontrivial, discriminating=False, api_only=False, expect_error=False):
        self.add(key, construct, api, src, read, checks, nontrivial, api_only)
        c = self.cases[-1]
        c.triple = "%s | %s | %s" % (op, lk, rk)
        c.discriminating = discriminating
        c.expect_error = expect_error
        c.rot = triple_index().get(c.triple, 0)

    def chk_any_mat(self, sig, field, accepted, what):
        def f(obs):
            got = obs[field]
            if min(fr.mdiff(got, e) for e in accepted) > TOL:
                return (
                    sig,
                    "%s: observed %s, accepted %s" % (what, fmt(got), " or ".join(fmt(e) for e in accepted)),
                )

        return f

    def build_vector_operators(self):
        self.build_relative_to()
        self.build_offset_along()
        self.build_field_at()

    def build_relative_to(self):
        g = fr
        entity = ("OrientedPoint", "Object")
        for lk in KINDS:
            for rk in KINDS:
                tag = "%s-%s" % (lk, rk)
                if lk == "Vector" or rk == "Vector":
                    if lk == "Vector" and rk == "Vector":
                        for syn in ("relative to", "offset by"):
                            self.add_triple(
                                syn, lk, rk, "%s:%s" % (syn.replace(" ", "-"), tag), "relative to",
                                "RelativeTo(VEC, T)", "VEC %s T" % syn, "vector",
                                [chk_vec("relative-to:Vector-Vector", g.vadd(VOFF, TPOS), "sum")], False,
                            )
                    elif lk == "Vector" and rk in entity:
                        r, rpos = self.point_operand(rk, "R")
                        for ltxt, lkk in (("VEC", "Vector"), (lit(VOFF), "tuple")):
                            self.add_triple(
                                "relative to", lk, rk, "relative-to:%s-%s" % (lkk, rk), "relative to",
                                "RelativeTo(%s, %s)" % (ltxt, r), "%s relative to %s" % (ltxt, r), "entity",
                                [chk_pos("relative-to:%s:position" % tag, g.to_global(EPOS, self.EM, VOFF))], self.e_tilt,
                            )
                    elif rk == "Vector" and lk in entity:
                        l, lpos = self.point_operand(lk, "L")
                        for syn in ("relative to", "offset by"):
                            self.add_triple(
                                syn, lk, rk, "%s:%s" % (syn.replace(" ", "-"), tag), "relative to",
                                "RelativeTo(%s, VEC)" % l, "%s %s VEC" % (l, syn), "entity",
                                [chk_pos("relative-to:%s:position" % tag, g.to_global(self.xpos, self.XM, VOFF))], self.x_tilt,
                            )
                    else:
                        self.undefined("relative to", lk, rk)
                    continue
                if lk in entity and rk in entity:
                    # data.rst: "Scenic rejects such expressions as being ambiguous"
                    l, r = self.point_operand(lk, "L")[0], self.point_operand(rk, "R")[0]
                    self.add_triple(
                        "relative to", lk, rk, "relative-to:" + tag, "relative to",
                        "RelativeTo(%s, %s)" % (l, r), "%s relative to %s" % (l, r), "direction", [], False,
                        api_only=True, expect_error=True,
                    )
                    continue
                l, lms = self.direction_operand(lk, "L")
                r, rms = self.direction_operand(rk, "R")
                if lms is None or rms is None:
                    self.skip("relative-to:entity-in-gimbal-lock")
                    continue
                if (lk in entity and rk == "number" and self.flipped_global) or (rk in entity and lk == "number" and self.e_flipped):
                    # the implementation adds Object.heading here: known finding (heading is not the
                    # yaw of the orientation for |pitch| > 90 deg under a global parent)
                    self.skip("relative-to:heading-of-entity-pitched-beyond-90")
                    continue
                accepted = [g.mmul(rm, lm) for lm in lms for rm in rms]  # second direction, then first
                swapped = [g.mmul(lm, rm) for lm in lms for rm in rms]
                disc = min(g.mdiff(a, s) for a in accepted for s in swapped) > 1e-3
                if len(accepted) > 1:
                    self.unspec("relative-to:entity-as-direction(orientation or heading accepted)")
                sig = "relative-to:" + tag
                if lk == "field" or rk == "field":
                    spec = Spec("Facing(RelativeTo(%s, %s))" % (l, r), "facing (%s relative to %s)" % (l, r))
                    api, src = new_expr("OrientedPoint", [s_at("Q"), spec], self.QP)
                    self.add_triple(
                        "relative to", lk, rk, sig, "relative to", api, src, "entity",
                        [
                            self.chk_any_mat(sig, "ori", accepted, "global orientation when facing (L relative to R) at Q"),
                            chk_mat(sig + ":parentOrientation", "parent", self.NPM, "parentOrientation (must be untouched)"),
                        ],
                        True, disc,
                    )
                else:
                    self.add_triple(
                        "relative to", lk, rk, sig, "relative to",
                        "RelativeTo(%s, %s)" % (l, r), "(%s) relative to (%s)" % (l, r), "direction",
                        [self.chk_any_mat(sig, "value", accepted, "second direction, then rotated by the first")],
                        True, disc,
                    )
        self.unspec("relative-to:orientation-of-resulting-oriented-point", 8)

    def build_offset_along(self):
        g = fr
        w = VOFF2
        for lk in KINDS:
            for dk in KINDS:
                if lk not in ("Vector", "OrientedPoint", "Object") or dk == "Vector":
                    self.undefined("offset along", lk, dk)
                    continue
                l, lpos = self.point_operand(lk, "L")
                if dk == "field":
                    d, dms = "FLD2", [self.field2_at(lpos)]  # "evaluated at the first vector"
                elif dk == "number":
                    d, dms = repr(self.fyaw), [g.rot_z(self.fyaw)]
                else:
                    d, dms = self.direction_operand(dk, "R")
                if dms is None:
                    self.skip("offset-along:entity-in-gimbal-lock")
                    continue
                if len(dms) > 1:
                    self.unspec("offset-along:entity-as-direction(orientation or heading accepted)")
                accepted = [g.to_global(lpos, dm, w) for dm in dms]
                sig = "offset-along-op:%s-%s" % (lk, dk)
                self.add_triple(
                    "offset along", lk, dk, sig, "offset along (operator)",
                    "OffsetAlong(%s, %s, VO2)" % (l, d), "%s offset along %s by VO2" % (l, d), "vector",
                    [self.chk_any_vec(sig, accepted, "offset position")], True, True,
                )
        # specifier form with an entity as the direction (heading / orientation / constant field
        # are built in build_position_specifiers)
        for dk, d in (("OrientedPoint", "XP"), ("Object", "X")):
            dms = self.entity_direction("L")
            if dms is None:
                self.skip("offset-along:entity-in-gimbal-lock")
                continue
            self.unspec("offset-along:entity-as-direction(orientation or heading accepted)")
            api, src = new_expr("Object", [s_offsetalong(d, "VO2")], self.AO)
            sig = "offset-along-spec:" + dk
            self.add_triple(
                "offset along (specifier)", "ego", dk, sig, "offset along (specifier)", api, src, "entity",
                [
                    self.chk_any_vec(sig + ":position", [g.to_global(EPOS, dm, w) for dm in dms], "position", field="pos"),
                    chk_mat("offset-along-spec:parentOrientation", "parent", self.EM, "parentOrientation (ego's orientation)"),
                ],
                True, True,
            )

    def chk_any_vec(self, sig, accepted, what, field="value"):
        def f(obs):
            got = obs[field]
            if min(fr.vdist(got, e) for e in accepted) > TOL:
                return (sig, "%s: observed %s, accepted %s" % (what, fmt(got), " or ".join(fmt(e) for e in accepted)))

        return f

    def build_field_at(self):
        for lk in KINDS:
            if lk not in ("Vector", "OrientedPoint", "Object"):
                self.undefined("at", "field", lk)
                continue
            l, lpos = self.point_operand(lk, "L")
            sig = "field-at:" + lk
            self.add_triple(
                "at", "field", lk, sig, "field at", "FieldAt(FLD2, %s)" % l, "FLD2 at %s" % l, "ori",
                [chk_mat(sig, "value", self.field2_at(lpos), "orientation of the field at the position")], True, True,
            )

    def build_scalar_operators(self):
        g = fr
        point_kinds = ("Vector", "OrientedPoint", "Object")
        # distance / angle / altitude [from L] to R
        forms = []
        for lk in KINDS + ("default",):
            for rk in KINDS + ("default",):
                if lk == "default" and rk == "default":
                    continue
                ok = (lk in point_kinds or lk == "default") and (rk in point_kinds or rk == "default")
                for op in ("distance", "angle", "altitude"):
                    if not ok:
                        self.undefined(op, lk, rk)
                if not ok:
                    continue
                if lk == "default":  # from ego; the target is taken from the X side
                    a, apos = None, EPOS
                    b, bpos = self.point_operand(rk, "L")
                elif rk == "default":
                    a, apos = self.point_operand(lk, "L")
                    b, bpos = None, EPOS
                else:
                    a, apos = self.point_operand(lk, "L")
                    b, bpos = self.point_operand(rk, "R")
                forms.append((lk, rk, a, apos, b, bpos))
        for lk, rk, a, apos, b, bpos in forms:
            tag = "%s-%s" % (lk, rk)
            calls = {}
            if a is None:
                calls["distance"] = ("DistanceFrom(%s)" % b, "distance to %s" % b)
                calls["angle"] = ("AngleFrom(Y=%s)" % b, "angle to %s" % b)
                calls["altitude"] = ("AltitudeFrom(Y=%s)" % b, "altitude to %s" % b)
            elif b is None:
                calls["distance"] = ("DistanceFrom(%s)" % a, "distance from %s" % a)
                calls["angle"] = ("AngleFrom(X=%s)" % a, "angle from %s" % a)
                calls["altitude"] = ("AltitudeFrom(X=%s)" % a, "altitude from %s" % a)
            else:
                calls["distance"] = ("DistanceFrom(%s, Y=%s)" % (b, a), "distance from %s to %s" % (a, b))
                calls["angle"] = ("AngleFrom(X=%s, Y=%s)" % (a, b), "angle from %s to %s" % (a, b))
                calls["altitude"] = ("AltitudeFrom(X=%s, Y=%s)" % (a, b), "altitude from %s to %s" % (a, b))
            self.add_triple(
                "distance", lk, rk, "distance:" + tag, "distance", calls["distance"][0], calls["distance"][1], "scalar",
                [chk_scalar("distance", g.vdist(apos, bpos), "distance")], False,
            )
            if g.horizontal_degenerate(apos, bpos, 1e-6):
                self.skip("angle:vertical")
                # the reference's only example ("pi if directly above") contradicts the usual definition there
                self.unspec("altitude:directly-above")
                continue
            self.add_triple(
                "angle", lk, rk, "angle:" + tag, "angle", calls["angle"][0], calls["angle"][1], "scalar",
                [chk_angle("angle", g.azimuth(apos, bpos), "heading (azimuth) to the position")], False,
            )
            self.add_triple(
                "altitude", lk, rk, "altitude:" + tag, "altitude", calls["altitude"][0], calls["altitude"][1], "scalar",
                [chk_scalar("altitude", g.altitude(apos, bpos), "altitude (elevation angle)")], False,
            )

        # relative heading of L [from R]: headings; an OrientedPoint stands for its heading
        xg, eg = g.is_gimbal(self.XM), g.is_gimbal(self.EM)
        xh, eh = g.yaw_of(self.XM), g.yaw_of(self.EM)
        heading_kinds = ("number", "OrientedPoint", "Object")
        for lk in KINDS:
            for rk in KINDS + ("default",):
                if lk not in heading_kinds or (rk not in heading_kinds and rk != "default"):
                    self.undefined("relative heading", lk, rk)
                    continue
                if lk == "number":
                    a, ah, adeg, ant = repr(self.h1), self.h1, False, False
                else:
                    a, ah, adeg, ant = ("XP" if lk == "OrientedPoint" else "X"), xh, xg, self.x_tilt
                if rk == "number":
                    b, bh, bdeg, bnt = repr(self.h2), self.h2, False, False
                elif rk == "default":
                    b, bh, bdeg, bnt = None, eh, eg, self.e_tilt
                else:
                    b, bh, bdeg, bnt = ("EP" if rk == "OrientedPoint" else "E"), eh, eg, self.e_tilt
                if adeg or bdeg:
                    self.skip("relative-heading:gimbal-lock")
                    continue
                if b is None:
                    api, src = "RelativeHeading(%s)" % a, "relative heading of %s" % a
                else:
                    api, src = "RelativeHeading(%s, Y=%s)" % (a, b), "relative heading of %s from %s" % (a, b)
                self.add_triple(
                    "relative heading", lk, rk, "relative-heading:%s-%s" % (lk, rk), "relative heading", api, src, "scalar",
                    [chk_angle("relative-heading", ah - bh, "heading minus reference heading")], ant or bnt,
                    discriminating=abs(math.sin(ah - bh)) > 1e-3,  # (a - b) and (b - a) differ mod 2 pi
                )
        # apparent heading of L [from R]
        for lk in KINDS:
            for rk in KINDS + ("default",):
                if lk not in ("OrientedPoint", "Object") or (rk not in point_kinds and rk != "default"):
                    self.undefined("apparent heading", lk, rk)
                    continue
                a = "XP" if lk == "OrientedPoint" else "X"
                if rk == "default":
                    b, bpos = None, EPOS
                elif rk == "Vector":
                    b, bpos = "T", TPOS
                else:
                    b, bpos = self.point_operand(rk, "R")
                if xg:
                    self.skip("apparent-heading:gimbal-lock")
                    continue
                if g.horizontal_degenerate(bpos, self.xpos, 1e-6):
                    self.skip("apparent-heading:vertical-line-of-sight")
                    continue
                if b is None:
                    api, src = "ApparentHeading(%s)" % a, "apparent heading of %s" % a
                else:
                    api, src = "ApparentHeading(%s, Y=%s)" % (a, b), "apparent heading of %s from %s" % (a, b)
                self.add_triple(
                    "apparent heading", lk, rk, "apparent-heading:%s-%s" % (lk, rk), "apparent heading", api, src, "scalar",
                    [self.chk_apparent_heading(xh, bpos)], self.x_tilt, True,
                )

    def chk_apparent_heading(self, xh, bpos):
        exp = fr.apparent_heading(self.xpos, xh, bpos)

        def f(obs):
            if fr.angdiff(obs["value"], exp) > TOL:
                sig = "apparent-heading"
                if self.flipped_global and fr.angdiff(obs["value"], fr.apparent_heading(self.xpos, self.xown[0], bpos)) <= TOL:
                    sig = "apparent-heading:heading-not-orientation-yaw-when-pitch-beyond-90"
                return (
                    sig,
                    "heading w.r.t. the line of sight: expected %s (mod 2pi), observed %s" % (fmt(exp), fmt(obs["value"])),
                )

        return f


# ------------------------------------------------------------------ observation


def observe(value, read):
    """Turn what Scenic returned into plain tuples (no Scenic/scipy arithmetic involved)."""
    if read == "entity":
        o = value
        return {
            "pos": tuple(float(c) for c in o.position),
            "ori": fr.quat_matrix(tuple(float(c) for c in o.orientation.q)),
            "parent": fr.quat_matrix(tuple(float(c) for c in o.parentOrientation.q)),
            "ypr": (float(o.yaw), float(o.pitch), float(o.roll)),
        }
    if read == "scalar":
        return {"value": float(value)}
    if read == "vector":
        return {"value": tuple(float(c) for c in value)}
    if read == "ori":
        return {"value": fr.quat_matrix(tuple(float(c) for c in value.q))}
    if read == "direction":  # a heading or an orientation (the reference allows either)
        if hasattr(value, "q"):
            return {"value": fr.quat_matrix(tuple(float(c) for c in value.q))}
        return {"value": fr.rot_z(float(value))}
    raise HarnessError("unknown read kind " + read)


class _StubScenario:
    """Minimal stand-in for the scenario being compiled, so that `ego` works when the
    veneer functions are called outside a compilation."""

    _ego = None
    _isRunning = False
    _workspace = None

    def _registerInstance(self, inst):
        pass

    def _registerObject(self, obj):
        pass


_API_NS = None


def api_namespace():
    global _API_NS
    if _API_NS is None:
        import trimesh
        from scenic.syntax import veneer

        ns = {k: getattr(veneer, k) for k in dir(veneer) if not k.startswith("__")}
        ns["trimesh"] = trimesh
        _API_NS = ns
    return dict(_API_NS)


def run_api(b):
    """Evaluate every case of the builder through the veneer functions."""
    from scenic.syntax import veneer

    ns = api_namespace()
    old = veneer.currentScenario
    veneer.currentScenario = _StubScenario()
    out = {}
    try:
        for api, _ in b.prelude:
            if api is not None:
                exec(api, ns)
        for c in b.cases:
            try:
                value = eval(c.api, ns)
            except Exception as e:
                out[c.key] = ("exc", "%s: %s" % (type(e).__name__, e))
                continue
            if c.expect_error:  # not rejected: whatever came back is the observation
                out[c.key] = ("ok", {"value": "a %s" % type(value).__name__})
                continue
            try:
                out[c.key] = ("ok", observe(value, c.read))
            except HarnessError:
                raise
            except Exception as e:
                out[c.key] = ("exc", "result of unexpected type %s (%s: %s)" % (type(value).__name__, type(e).__name__, e))
    finally:
        veneer.currentScenario = old
    out["__ns__"] = ns
    return out


def in_source(b, c):
    """Cases written into the source program of this item: all the basic ones, and the third
    of the operand-kind product selected by the item index (every source program would
    otherwise double in size; the parser costs about 25 ms per statement)."""
    if c.api_only:
        return False
    return c.rot is None or c.rot % SRC_SPLIT == b.item.get("src_part", 0) % SRC_SPLIT


def program_text(b):
    lines = ["import trimesh"]
    for _, src in b.prelude:
        lines.append(src)
    names = []
    for c in b.cases:
        if not in_source(b, c):
            continue
        names.append("c%d" % len(names))
        lines.append("%s = %s" % (names[-1], c.src))
    lines.append("param results = [%s]" % ", ".join(names))
    return "\n".join(lines) + "\n"


def run_source(b):
    import scenic

    text = program_text(b)
    out = {}
    try:
        scenario = scenic.scenarioFromString(text, mode2D=False)
        values = list(scenario.params["results"])
    except Exception as e:
        return None, "%s: %s" % (type(e).__name__, e), text
    n = 0
    for c in b.cases:
        if not in_source(b, c):
            continue
        try:
            out[c.key] = ("ok", observe(values[n], c.read))
        except Exception as e:
            out[c.key] = ("exc", "%s: %s" % (type(e).__name__, e))
        n += 1
    return out, None, text


# ------------------------------------------------------------------ algebra laws


def algebra_laws(b):
    """Laws of scenic.core.vectors.Orientation / Vector against the matrix model.
    Returns (evaluations, failures[(key, signature, message)])."""
    from scenic.core.vectors import Orientation, Vector
    from scenic.core.type_support import toOrientation

    g = fr
    fails = []
    n = 0

    def mat(o):
        return g.quat_matrix(tuple(float(c) for c in o.q))

    def law(key, sig, got, exp, what):
        nonlocal n
        n += 1
        bad = g.mdiff(got, exp) > TOL if isinstance(exp[0], tuple) else g.vdist(got, exp) > TOL
        if bad:
            fails.append(("algebra:" + key, "algebra:" + sig, "%s: expected %s, observed %s" % (what, fmt(exp), fmt(got))))

    own, par = b.xown, b.xpar
    OM, PM = g.euler(*own), g.euler(*par)
    O, P = Orientation.fromEuler(*own), Orientation.fromEuler(*par)
    law("fromEuler", "fromEuler", mat(O), OM, "Orientation.fromEuler%s" % fmt(own))
    law("compose", "composition", mat(P * O), g.mmul(PM, OM), "P * O")
    law("compose-rev", "composition", mat(O * P), g.mmul(OM, PM), "O * P")
    law("inverse", "inverse", mat(O.inverse), g.mT(OM), "O.inverse")
    law("inverse-cancel", "inverse", mat((P * O) * (P * O).inverse), g.I3, "(P*O) * (P*O).inverse")
    ea = tuple(float(a) for a in (P * O).eulerAngles)
    law("euler-roundtrip", "euler-roundtrip", g.euler(*ea), g.mmul(PM, OM), "euler(eulerAngles(P*O))")
    n += 1
    if not (-math.pi - TOL <= ea[0] <= math.pi + TOL and -math.pi / 2 - TOL <= ea[1] <= math.pi / 2 + TOL and -math.pi - TOL <= ea[2] <= math.pi + TOL):
        fails.append(("algebra:euler-range", "algebra:euler-range", "eulerAngles %s outside yaw,roll in [-pi,pi], pitch in [-pi/2,pi/2]" % fmt(ea)))
    n += 1
    M = g.mmul(PM, OM)
    if not g.is_gimbal(M):
        ex = g.to_euler(M)
        if max(g.angdiff(ea[i], ex[i]) for i in range(3)) > 1e-7:
            # (angles near +-90 degrees of pitch are ill-conditioned: looser tolerance here,
            # the matrix round trip above is the 1e-9 statement)
            fails.append(("algebra:euler-angles", "algebra:euler-angles", "eulerAngles: expected %s, observed %s" % (fmt(ex), fmt(ea))))
        po = P * O
        if max(abs(float(x) - y) for x, y in zip((po.yaw, po.pitch, po.roll), ea)) > 0:
            fails.append(("algebra:ypr-properties", "algebra:ypr-properties", "yaw/pitch/roll properties differ from eulerAngles"))
    la = tuple(float(a) for a in P.localAnglesFor(O))
    law("localAnglesFor", "localAnglesFor", g.mmul(PM, g.euler(*la)), OM, "P . euler(P.localAnglesFor(O))")
    la = tuple(float(a) for a in P.globalToLocalAngles(*own))
    law("globalToLocalAngles", "localAnglesFor", g.mmul(PM, g.euler(*la)), OM, "P . euler(P.globalToLocalAngles(own))")
    h = b.h2
    law("add-heading", "add-heading", mat(O + h), g.mmul(OM, g.rot_z(h)), "O + h")
    law("radd-heading", "add-heading", mat(h + O), g.mmul(g.rot_z(h), OM), "h + O")
    law("coerce-heading", "coerce", mat(toOrientation(h)), g.rot_z(h), "toOrientation(heading)")
    law("coerce-tuple", "coerce", mat(toOrientation(tuple(own))), OM, "toOrientation((yaw, pitch, roll))")
    v = Vector(*VOFF)
    law("applyRotation", "vector-rotation", tuple(float(c) for c in v.applyRotation(O)), g.mapply(OM, VOFF), "v.applyRotation(O)")
    law("rotatedBy-orientation", "vector-rotation", tuple(float(c) for c in v.rotatedBy(P * O)), g.mapply(M, VOFF), "v.rotatedBy(P*O)")
    law("rotatedBy-heading", "vector-rotation", tuple(float(c) for c in v.rotatedBy(h)), g.mapply(g.rot_z(h), VOFF), "v.rotatedBy(h)")
    law("north", "heading-convention", tuple(float(c) for c in Vector(0, 1, 0).rotatedBy(h)), (-math.sin(h), math.cos(h), 0.0), "(0,1,0).rotatedBy(h)")
    law("north-orientation", "heading-convention", tuple(float(c) for c in Vector(0, 1, 0).applyRotation(toOrientation(h))), (-math.sin(h), math.cos(h), 0.0), "(0,1,0) rotated by heading orientation")
    law("offsetLocally", "vector-rotation", tuple(float(c) for c in Vector(*TPOS).offsetLocally(O, v)), g.to_global(TPOS, OM, VOFF), "p.offsetLocally(O, v)")
    law("offsetRotated", "vector-rotation", tuple(float(c) for c in Vector(*TPOS).offsetRotated(O, v)), g.to_global(TPOS, OM, VOFF), "p.offsetRotated(O, v)")
    return n, fails


def entity_laws(b, ns):
    """Derived properties of the reference Object itself (orientation, heading, corners)."""
    g = fr
    fails = []
    n = 0
    X = ns["X"]
    obs = observe(X, "entity")
    n += 1
    if g.mdiff(obs["ori"], b.XM) > TOL:
        fails.append(("entity:orientation", "entity:orientation", "orientation of an Object: expected parentOrientation . euler(yaw,pitch,roll) = %s, observed %s" % (fmt(b.XM), fmt(obs["ori"]))))
    if not g.is_gimbal(b.XM):
        n += 1
        if g.angdiff(float(X.heading), g.yaw_of(b.XM)) > TOL:
            sig = "entity:heading"
            if b.flipped_global and g.angdiff(float(X.heading), b.xown[0]) <= TOL:
                sig = "entity:heading:not-orientation-yaw-when-pitch-beyond-90"
            fails.append((sig, sig, "heading: expected the yaw of the global orientation %s, observed %s" % (fmt(g.yaw_of(b.XM)), fmt(float(X.heading)))))
    n += 1
    exp = g.corners(b.xpos, b.XM, b.xdims)
    got = [tuple(float(c) for c in p) for p in X.corners]
    # the 8 corners as a set: every expected corner is matched by exactly one observed corner
    match = [[j for j, c in enumerate(got) if g.vdist(a, c) <= TOL] for a in exp]
    if len(got) != 8 or any(len(m) != 1 for m in match) or len({m[0] for m in match}) != 8:
        fails.append(("entity:corners", "entity:corners", "corners: expected %s, observed %s" % (exp, got)))
    return n, fails


# ------------------------------------------------------------------ worker


def judge(b, results, route, res):
    for c in b.cases:
        if route == "source" and not in_source(b, c):
            continue
        st = results.get(c.key)
        if st is None:
            continue
        res["evaluations"] += 1
        res["constructs"][c.construct] = res["constructs"].get(c.construct, 0) + 1
        if c.nontrivial:
            res["nontrivial"] += 1
            res["constructs_nontrivial"][c.construct] = res["constructs_nontrivial"].get(c.construct, 0) + 1
        if c.expect_error:
            res["judgments"] += 1
            rejected = st[0] == "exc" and st[1].split(":")[0] in ("TypeError", "InvalidScenarioError", "ScenicSyntaxError")
            res["triples"][c.triple] = res["triples"].get(c.triple, 0) + 1
            if not rejected:
                res["violations"].append(
                    (
                        c.key + ":not-rejected",
                        "the reference says this form is rejected as ambiguous; observed %s\n  api: %s\n  source: %s"
                        % (st[1] if st[0] == "exc" else st[1]["value"], c.api, c.src),
                        {"item": b.item, "key": c.key, "signature": c.key + ":not-rejected"},
                    )
                )
            continue
        if c.triple is not None and c.checks:  # (a case that raises is reported below: still judged)
            res["triples"][c.triple] = res["triples"].get(c.triple, 0) + 1
            if c.discriminating:
                res["triples_disc"][c.triple] = res["triples_disc"].get(c.triple, 0) + 1
        if st[0] == "exc":
            res["violations"].append(
                (
                    "exception:%s" % c.key.split(":")[0],
                    "case %s raised %s\n  api: %s\n  source: %s" % (c.key, st[1], c.api, c.src),
                    {"item": b.item, "key": c.key},
                )
            )
            continue
        obs = st[1]
        for chk in c.checks:
            r = chk(obs)
            res["judgments"] += 1
            if r is None:
                continue
            if r == SKIP:
                continue
            sig, msg = r
            res["violations"].append(
                (
                    sig,
                    "%s [%s route, item %s]\n  X: pos %s parent %s own %s dims %s | ego: parent %s own %s | new: parent %s own %s dims %s | field %s (degrees)\n  api: %s\n  source: %s"
                    % (
                        msg, route, b.item["idx"], b.item["xpos"], b.item["xpar"], b.item["xown"], b.item["xdims"],
                        b.item["epar"], b.item["eown"], b.item["npar"], b.item["nown"], b.item["ndims"], b.item["fo"],
                        c.api, c.src,
                    ),
                    {"item": b.item, "key": c.key, "signature": sig},
                )
            )


def check_item(item):
    res = {
        "idx": item["idx"],
        "evaluations": 0,
        "judgments": 0,
        "nontrivial": 0,
        "violations": [],
        "constructs": {},
        "constructs_nontrivial": {},
        "triples": {},
        "triples_disc": {},
        "triples_undefined": {},
        "unspecified": {},
        "skipped": {},
        "programs": 0,
        "sample": None,
    }
    try:
        b = Builder(item)
        route = item.get("route", "api")
        if route == "api":
            results = run_api(b)
            judge(b, results, "api", res)
            # laws of the algebra and of the reference entity itself
            n, fails = algebra_laws(b)
            n2, fails2 = entity_laws(b, results["__ns__"])
            res["evaluations"] += n + n2
            res["judgments"] += n + n2
            res["constructs"]["algebra laws"] = n
            res["constructs"]["entity laws"] = n2
            if b.x_tilt:
                res["nontrivial"] += n + n2
                res["constructs_nontrivial"]["algebra laws"] = n
                res["constructs_nontrivial"]["entity laws"] = n2
            for key, sig, msg in fails + fails2:
                res["violations"].append(
                    (sig, "%s [item %s: parent %s own %s (degrees)]" % (msg, item["idx"], item["xpar"], item["xown"]), {"item": item, "key": key, "signature": sig})
                )
        else:
            results, err, text = run_source(b)
            res["programs"] = 1
            if results is None:
                res["evaluations"] += 1
                res["violations"].append(
                    ("source:does-not-compile", "program of documented constructs does not compile: %s\n%s" % (err, text), {"item": item, "key": "*"})
                )
            else:
                judge(b, results, "source", res)
        res["unspecified"] = b.unspecified
        res["triples_undefined"] = b.triples_undefined
        res["skipped"] = b.skipped
        if item["idx"] % 97 == 0 and route == "api":
            c = b.cases[(item["idx"] // 97 * 13) % len(b.cases)]
            res["sample"] = {"item": item["idx"], "x_parent_deg": item["xpar"], "x_own_deg": item["xown"], "case": c.key, "api": c.api, "source": c.src}
    except HarnessError:
        raise
    except Exception:
        res["violations"].append(("harness:worker-exception", traceback.format_exc(), {"item": item, "key": "*"}))
        res["harness_error"] = traceback.format_exc()
    return res


# ------------------------------------------------------------------ self checks of the model


def model_selfcheck():
    g = fr
    # heading 0 = +Y, counter-clockwise positive
    f = g.forward(g.rot_z(math.pi / 2))
    if g.vdist(f, (-1.0, 0.0, 0.0)) > 1e-12:
        raise HarnessError("model: heading 90 deg must face -X (West)")
    # pitch up lifts the nose; positive roll lowers the right side (right-hand rule about +Y)
    if g.forward(g.euler(0, 0.3, 0))[2] <= 0:
        raise HarnessError("model: positive pitch must raise the forward axis")
    if g.mapply(g.euler(0, 0, 0.3), (1.0, 0.0, 0.0))[2] >= 0:
        raise HarnessError("model: positive roll must lower the right side")
    # intrinsic Z-X-Y: yaw first, then pitch about the yawed X axis
    M = g.euler(math.pi / 2, math.pi / 2, 0)
    if g.vdist(g.forward(M), (0.0, 0.0, 1.0)) > 1e-12 or g.vdist(g.mapply(M, (1.0, 0.0, 0.0)), (0.0, 1.0, 0.0)) > 1e-12:
        raise HarnessError("model: Euler order is not intrinsic Z-X-Y")
    for t in OWN:
        M = g.euler(*rad(t))
        if not g.is_rotation(M, 1e-12):
            raise HarnessError("model: not a rotation")
        if not g.is_gimbal(M):
            if g.mdiff(g.euler(*g.to_euler(M)), M) > 1e-12:
                raise HarnessError("model: Euler round trip")
    if abs(g.azimuth((0, 0, 0), (-1, 1, 0)) - math.pi / 4) > 1e-12:
        raise HarnessError("model: azimuth")


# ------------------------------------------------------------------ operand-kind product

ENTITY = ("OrientedPoint", "Object")
POINTS = ("Vector", "OrientedPoint", "Object")
REJECTED_TRIPLES = {"relative to | %s | %s" % (a, b) for a in ENTITY for b in ENTITY}


def required_triples():
    """{triple: order-sensitive?} for every (operator, left kind, right kind) to which
    docs/reference/{operators,specifiers,data}.rst give a meaning.  Written out independently of
    the Builder loops, so that a form dropped there is noticed."""
    req = {}

    def need(op, lk, rk, order=False):
        req["%s | %s | %s" % (op, lk, rk)] = order

    directions = ("number", "Orientation", "field") + ENTITY
    for lk in directions:
        for rk in directions:
            if lk in ENTITY and rk in ENTITY:
                need("relative to", lk, rk)  # rejected as ambiguous (data.rst)
            else:
                # heading + heading commutes; everything else is a 3-D composition
                need("relative to", lk, rk, order=not (lk == "number" and rk == "number")
                     and not (lk == "number" and rk in ENTITY) and not (lk in ENTITY and rk == "number"))
    need("relative to", "Vector", "Vector")
    need("offset by", "Vector", "Vector")
    for e in ENTITY:
        need("relative to", "Vector", e)
        need("relative to", e, "Vector")
        need("offset by", e, "Vector")
    for lk in POINTS:
        for dk in ("number", "Orientation", "field") + ENTITY:
            need("offset along", lk, dk, order=True)
        need("at", "field", lk, order=True)
    for dk in ENTITY:
        need("offset along (specifier)", "ego", dk, order=True)
    for op in ("distance", "angle", "altitude"):
        for lk in POINTS + ("default",):
            for rk in POINTS + ("default",):
                if not (lk == "default" and rk == "default"):
                    need(op, lk, rk)
    for lk in ("number",) + ENTITY:
        for rk in ("number", "default") + ENTITY:
            need("relative heading", lk, rk, order=True)
    for lk in ENTITY:
        for rk in POINTS + ("default",):
            need("apparent heading", lk, rk, order=True)
    return req


_TRIPLE_INDEX = None


def triple_index():
    """Stable numbering of the required triples (decides which source programs carry them)."""
    global _TRIPLE_INDEX
    if _TRIPLE_INDEX is None:
        _TRIPLE_INDEX = {t: i for i, t in enumerate(sorted(required_triples()))}
    return _TRIPLE_INDEX


# ------------------------------------------------------------------ run / replay


def run(ctx):
    import scenic  # noqa: F401  (imported before the workers fork)

    model_selfcheck()
    api_namespace()
    items = plan(ctx.tier)
    keys = {tuple(sorted((k, str(v)) for k, v in it.items() if k != "idx")) for it in items}
    if len(keys) != len(items):
        raise HarnessError("enumeration produced duplicate items")
    items = ctx.rotate(items)
    nsrc = QUICK_SOURCE_PROGRAMS if ctx.tier == "quick" else THOROUGH_SOURCE_PROGRAMS
    # deterministic prefix (spread over the lattice) compiled from real Scenic source text
    stride = max(1, len(items) // nsrc)
    src_items = [dict(it, route="source", src_part=j % SRC_SPLIT) for j, it in enumerate(items[::stride][:nsrc])]
    work = src_items + items

    tot = {"evaluations": 0, "judgments": 0, "nontrivial": 0, "programs": 0, "src_evaluations": 0}
    constructs, constructs_nt, unspecified, skipped = {}, {}, {}, {}
    triples, triples_disc, triples_undef, triples_src = {}, {}, {}, {}
    samples = []
    seen = set()
    for r in ctx.pmap(check_item, work, chunksize=4):
        if r.get("harness_error"):
            raise HarnessError("worker failed:\n" + r["harness_error"])
        tot["evaluations"] += r["evaluations"]
        tot["judgments"] += r["judgments"]
        tot["nontrivial"] += r["nontrivial"]
        tot["programs"] += r["programs"]
        if r["programs"]:
            tot["src_evaluations"] += r["evaluations"]
        for d, src in (
            (constructs, r["constructs"]),
            (constructs_nt, r["constructs_nontrivial"]),
            (unspecified, r["unspecified"]),
            (skipped, r["skipped"]),
            (triples, r["triples"]),
            (triples_disc, r["triples_disc"]),
            (triples_undef, r["triples_undefined"]),
            (triples_src, r["triples"] if r["programs"] else {}),
        ):
            for k, v in src.items():
                d[k] = d.get(k, 0) + v
        if r["sample"] and len(samples) < 6:
            samples.append(r["sample"])
        for sig, desc, case in r["violations"]:
            # one report per (signature, construct case): the lattice repeats the same defect
            k = (sig, case.get("key"), case["item"].get("route"))
            if k in seen:
                continue
            seen.add(k)
            ctx.violation(sig, desc, case)

    required = [
        "left of", "right of", "ahead of", "behind", "above", "below", "facing", "facing toward",
        "facing away from", "facing directly toward", "facing directly away from", "apparently facing",
        "beyond", "offset by", "offset along (specifier)", "following", "on", "side operators",
        "relative to", "offset along (operator)", "distance", "angle", "altitude", "relative heading",
        "apparent heading", "field at", "algebra laws", "entity laws",
    ]
    missing = [c for c in required if constructs.get(c, 0) == 0]
    if missing:
        raise HarnessError("vacuous: constructs never evaluated: %s" % missing)
    # distance / angle / altitude depend on positions only: no rotation can matter there
    flat = [c for c in required if c not in ("distance", "angle", "altitude") and constructs_nt.get(c, 0) == 0]
    if flat:
        raise HarnessError("vacuous: constructs never evaluated with a tilted / non-global frame: %s" % flat)
    # operand-kind product: every (operator, left kind, right kind) the reference defines must
    # have been judged, through both routes, and (where the order of the operands matters) with
    # values for which a swapped order gives a different answer
    req = required_triples()
    never = sorted(t for t in req if triples.get(t, 0) == 0)
    if never:
        raise HarnessError("vacuous: operand-kind triples defined by the reference but never judged: %s" % never)
    never = sorted(t for t in req if req[t] and triples_disc.get(t, 0) == 0)
    if never:
        raise HarnessError("vacuous: operand-kind triples never judged with non-commuting operands: %s" % never)
    # (a rejected form aborts a whole program, so those are driven through the api route only)
    never = sorted(t for t in req if triples_src.get(t, 0) == 0 and t not in REJECTED_TRIPLES)
    if never:
        raise HarnessError("vacuous: operand-kind triples never judged through Scenic source text: %s" % never)
    overlap = sorted(set(req) & set(triples_undef))
    if overlap:
        raise HarnessError("operand-kind triples both required and counted as undefined: %s" % overlap)
    if tot["nontrivial"] == 0:
        raise HarnessError("vacuous: no case in which a rotation matters")
    if tot["programs"] == 0 or tot["src_evaluations"] == 0:
        raise HarnessError("vacuous: nothing went through real Scenic source text")
    if not samples:
        samples = [{"item": work[0]["idx"]}]

    ctx.cov.update(
        evaluations=tot["evaluations"],
        judgments=tot["judgments"],
        distinct_nontrivial=tot["nontrivial"],
        rule="every pose item (reference pose from %d parent orientations x %d yaw/pitch/roll triples with <=2 non-zero "
        "angles out of {0,30,-45,90,135,180} deg, positions off the origin, 2 dimension triples; ego / new-object pose and "
        "vector-field orientation paired by a fixed bijection of the same lattice) x every construct case (argument kinds "
        "vector / OrientedPoint / Object / ego default, with and without `by`, scalar and vector offsets; and for every "
        "binary operator the full product {left operand kind} x {right operand kind} over number, Orientation, Vector, "
        "OrientedPoint, Object, vector field / ego default, with different fully 3-D values on the two sides: triples the "
        "reference defines are judged and must all be reached, the others are counted as undefined); items are "
        "pairwise distinct, so every (item, case) is distinct; non-trivial = the frame that the case depends on has "
        "non-zero pitch/roll or a non-global parentOrientation (or the construct builds a 3-D line-of-sight / field frame)"
        % (len(PARENTS), len(OWN)),
        samples=samples,
        items=len(items),
        source_programs=tot["programs"],
        source_evaluations=tot["src_evaluations"],
        per_construct=dict(sorted(constructs.items())),
        operand_kind_triples_judged=dict(sorted(triples.items())),
        operand_kind_triples_judged_order_sensitive=dict(sorted(triples_disc.items())),
        operand_kind_triples_judged_via_source=dict(sorted(triples_src.items())),
        operand_kind_triples_undefined_in_reference=dict(sorted(triples_undef.items())),
        operand_kind_triples_required=len(req),
        per_construct_rotation_matters=dict(sorted(constructs_nt.items())),
        unspecified=dict(sorted(unspecified.items())),
        skipped_touching=sum(skipped.values()),
        skipped=dict(sorted(skipped.items())),
        bounds={
            "tier": ctx.tier,
            "angles_deg": list(ANGLES),
            "parents_deg": [list(p) for p in PARENTS],
            "dims": [list(d) for d in DIMS],
            "tolerance": TOL,
        },
    )
    ctx.assumptions += [
        "the reference model models/frames.py encodes docs/reference/{specifiers,operators,data,classes}.rst",
        "no directional `by` => gap of half the NEW object's contactTolerance (Object class reference and `on`; "
        "specifiers.rst says 'contactTolerance' without the half, see notes)",
        "Orientation.q is an (x, y, z, w) unit quaternion (documented by Orientation.fromQuaternion); converted with own code",
    ]
    ctx.notes.append(
        "docs inconsistency (not judged against Scenic): specifiers.rst says the gap without `by` is contactTolerance, "
        "the Object class reference says half of it; operators.rst says altitude pi means directly above (pi/2 by its own definition)"
    )


def replay(ctx, case):
    item = dict(case["item"])
    for f in ("xpos", "xpar", "xown", "xdims", "epar", "eown", "npar", "nown", "ndims", "fo"):
        item[f] = tuple(item[f])
    r = check_item(item)
    for sig, desc, c in r["violations"]:
        if case.get("key") in ("*", None) or (c.get("key") == case.get("key") and sig == case.get("signature", sig)):
            ctx.violation(sig, desc, c)
            return
