"""C13 — interrupts pre-empt and resume as documented; guards are checked when promised.

All programs of the interrupt fragment (gen/dynamic.py c13_programs) x ALL step-indexed
truth tables of the interrupt conditions over the first steps (plus guard tables) are run
on the real implementation; the full event trace / action log / outcome is compared with
the interrupt scheduler of the reference step machine (models/stepmachine.py, written from
docs/reference/statements.rst "Try-Interrupt Statement" and dynamic_scenarios.rst).
"""

import hashlib
import itertools

from mc import dyn, dyncmp
from mc.explorer import HarnessError
from gen import dynamic as gd
from models import stepmachine as sm

ID = "C13"
LEVEL = "model_checking"

MAXSTEPS = 7


def configs(prog, tier):
    """(tables, raise_guards) for one program."""
    names = gd.conditions_of(prog)
    cs = [n for n in names if n in ("c1", "c2")]
    guards = [n for n in names if n in ("inv", "pre", "sinv")]
    if tier == "quick":
        steps = 5 if len(cs) == 1 else 3
    else:
        steps = 7 if len(cs) == 1 else 5
    if not guards:
        for t in gd.all_tables(cs, steps):
            yield t, False
        return
    # guards: every single-step failure of every guard x interrupt tables with <= 2 true entries
    base_true = {g: [True] for g in guards}
    ctabs = []
    for t in gd.all_tables(cs, steps):
        if sum(sum(v) for v in t.values()) <= (2 if tier == "quick" else 3):
            ctabs.append(t)
    for ct in ctabs:
        yield dict(ct, **base_true), False
        for g in guards:
            for k in range(MAXSTEPS):
                tab = [True] * (MAXSTEPS + 1)
                tab[k] = False
                t = dict(ct, **base_true)
                t[g] = tab
                yield t, (k % 2 == 0)


def classify(prog, tables, raise_guards, res, var):
    """Known-finding attribution by differential substitution: does the implementation
    agree with the machine variant that checks invariants at try/do-for level on every
    resume (i.e. also while a sub-behaviour runs)?"""
    p = dict(prog, **var)
    d2 = dyncmp.compare(res, p, tables, raise_guards=raise_guards, variant={"inv_in_try"})
    if d2 is None:
        return "invariant-checked-while-sub-behaviour-runs"
    return None


def check_program(item):
    idx, prog, tier = item
    out = {"idx": idx, "runs": 0, "violations": [], "states": 0, "edges": 0, "preempt": 0, "resumed": 0, "guardrej": 0, "kinds": {}}
    text = gd.render(prog)
    try:
        sc = dyn.compile_scenario(text, **({"scenario": prog["main"]} if prog.get("main") else {}))
        scene, _ = sc.generate(maxIterations=5)
    except Exception as e:  # noqa: BLE001
        out["violations"].append((f"compile:{type(e).__name__}", f"valid program of the interrupt fragment does not compile: {e!r}\n{text}", {"idx": idx, "prog": prog, "tier": tier, "kind": "compile"}))
        return out
    var = {"timestep": 1, "maxSteps": MAXSTEPS}
    prefixes = set()
    for tables, rg in configs(prog, tier):
        p = dict(prog, **var)
        mout, mlog = dyncmp.model_view(p, tables, raise_guards=rg)
        res = dyn.simulate(scene, tables=tables, maxSteps=MAXSTEPS, timestep=1, raiseGuardViolations=rg)
        out["runs"] += 1
        diff = dyncmp.compare(res, p, tables, raise_guards=rg)
        o = res["outcome"]
        out["kinds"][o[0]] = out["kinds"].get(o[0], 0) + 1
        tags = [e for t, e in mlog if isinstance(e, str)]
        if any(".h" in e for e in tags):
            out["preempt"] += 1
            # a body event after a handler event = resumption
            seen_h = False
            for e in tags:
                if ".h" in e:
                    seen_h = True
                elif seen_h and ".b." in e:
                    out["resumed"] += 1
                    break
        if o[0] in ("rejected", "guard"):
            out["guardrej"] += 1
        h = hashlib.sha1(str(idx).encode())
        last_t = None
        for t, e in dyn.normalize_log(res["log"]):
            if t != last_t and last_t is not None:
                prefixes.add(h.copy().digest()[:8])
                out["edges"] += 1
            h.update(repr(e).encode())
            last_t = t
        prefixes.add(h.digest()[:8])
        if diff is not None:
            known = classify(prog, tables, rg, res, var)
            sig = known or f"{diff['kind']}-mismatch"
            out["violations"].append(
                (
                    sig,
                    f"implementation and reference interrupt scheduler disagree ({diff})\ntables={ {k: v for k, v in tables.items()} } raiseGuardViolations={rg}\n{text}",
                    {"idx": idx, "prog": prog, "tier": tier, "tables": tables, "rg": rg, "kind": "run"},
                )
            )
            if len(out["violations"]) > 8:
                break
    out["states"] = len(prefixes)
    return out


def run(ctx):
    items = [(idx, prog, ctx.tier) for idx, prog in gd.c13_programs(ctx.tier)]
    items += [(idx, prog, ctx.tier) for idx, prog in gd.c13_modular_programs(ctx.tier, start_index=len(items))]
    items = ctx.rotate(items)
    tot = {"runs": 0, "states": 0, "edges": 0, "preempt": 0, "resumed": 0, "guardrej": 0}
    kinds = {}
    for r in ctx.pmap(check_program, items, chunksize=2):
        for k in tot:
            tot[k] += r[k]
        for k, v in r["kinds"].items():
            kinds[k] = kinds.get(k, 0) + v
        for sig, desc, case in r["violations"]:
            ctx.violation(sig, desc, case)
    if not ctx.violations or True:
        if tot["preempt"] == 0 or tot["resumed"] == 0 or tot["guardrej"] == 0:
            raise HarnessError(f"vacuous: {tot}")
    samples = [{"program": gd.render(items[i][1]), "index": items[i][0]} for i in (0, len(items) // 2)]
    ctx.cov.update(
        states=tot["states"],
        transitions=tot["edges"],
        traces_validated_against_impl=tot["runs"],
        evaluations=tot["runs"],
        programs=len(items),
        distinct_nontrivial=tot["resumed"],
        rule="all programs of the interrupt fragment (1-2 handlers, nested statements, handlers with take/do/abort/break/continue/"
        "return, in loops and sub-behaviours, guards) x every truth table of the interrupt conditions over the first steps (guards: every "
        "single-step failure x tables with few true entries); non-trivial = runs in which a handler pre-empted a block and the block was "
        "later resumed; states = distinct event-history prefixes at step boundaries",
        samples=samples,
        collisions={"runs_with_preemption": tot["preempt"], "runs_with_resumption": tot["resumed"], "runs_rejected_or_guard": tot["guardrej"]},
        outcome_kinds=kinds,
        bounds={"maxSteps": MAXSTEPS, "table_steps_one_condition": 5 if ctx.tier == "quick" else 7, "table_steps_two_conditions": 3 if ctx.tier == "quick" else 5},
    )
    ctx.assumptions.append("interrupt conditions and guards are side-effect free functions of the time step")


def replay(ctx, case):
    from checks.c12 import _fix

    prog = _fix(case["prog"])
    if case.get("kind") == "compile":
        r = check_program((case["idx"], prog, case["tier"]))
        for sig, desc, c in r["violations"]:
            if sig.startswith("compile"):
                ctx.violation(sig, desc, c)
        return
    text = gd.render(prog)
    sc = dyn.compile_scenario(text, **({"scenario": prog["main"]} if prog.get("main") else {}))
    scene, _ = sc.generate(maxIterations=5)
    var = {"timestep": 1, "maxSteps": MAXSTEPS}
    p = dict(prog, **var)
    res = dyn.simulate(scene, tables=case["tables"], maxSteps=MAXSTEPS, timestep=1, raiseGuardViolations=case["rg"])
    diff = dyncmp.compare(res, p, case["tables"], raise_guards=case["rg"])
    if diff is not None:
        known = classify(prog, case["tables"], case["rg"], res, var)
        ctx.violation(known or f"{diff['kind']}-mismatch", f"{diff}\n{text}", case)
