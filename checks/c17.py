"""C17 - visibility respects the view volume and occlusion.

Engine: bounded-exhaustive enumeration of viewer kinds x viewer poses (camera away from the
origin and at the origin, yaw/pitch/roll alphabet with combined rotations) x view angles x
visible distances x ray settings x targets (point lattices on spheres around the camera;
objects of every shape ahead / behind / straddling / outside) x all subsets of a set of three
occluders, each case judged by the independent reference model models/view_c17.py (own
rotation matrices, own view-volume membership, own segment-vs-triangle intersection on raw
vertex/face arrays).  The same cases are driven through Point/OrientedPoint/Object.canSee,
the `can see` operator (veneer.CanSee), visibleRegion.containsPoint, the
VisibilityRequirement / NonVisibilityRequirement classes and compiled all-constant Scenic
programs (`require X can see Y`, `requireVisible`, `visible from`, `not visible from`).

Scenic's ray casting is deterministic (rays on a fixed lattice, shuffled with a fixed seed);
nothing here samples.
"""

import itertools
import math
import types
import warnings

import numpy as np

from mc.explorer import HarnessError
from models import view_c17 as M

ID = "C17"
LEVEL = "exploration"

ANG_M = math.radians(2.0)  # angular margin around every azimuth / altitude bound
RAD_M_FRAC = 0.05  # radial margin, fraction of visibleDistance
CAM_OFF = (0.5, 1.0, 0.8)  # cameraOffset of Object viewers (viewer frame)
VIEWER_DIMS = (2.0, 3.0, 1.5)
KINDS = ("Point", "OrientedPoint", "Object")
DEFECT_SIG = "point-visibility:rotated-viewer-off-origin"
PER_SIG_CAP = 3  # violations reported per signature per work item (all are counted)

SUBSETS = [tuple(i for i in range(3) if m >> i & 1) for m in range(8)]


# ----------------------------------------------------------------------------------------
# lattices
# ----------------------------------------------------------------------------------------
ROTS_QUICK = [
    (0, 0, 0),
    (90, 0, 0),
    (-135, 0, 0),
    (0, 30, 0),
    (0, 0, 45),
    (40, 30, 0),
    (40, 0, 45),
    (0, -60, 120),
    (40, 30, 45),
    (-135, -60, 120),
]
ROTS_ORIGIN_QUICK = [(0, 0, 0), (90, 0, 0), (40, 30, 45), (-135, -60, 120)]
ROTS_THOROUGH = ROTS_QUICK + [
    (180, 0, 0),
    (10, 0, 0),
    (0, 80, 0),
    (0, -30, 0),
    (0, 0, -90),
    (0, 0, 180),
    (-90, 45, 0),
    (170, -20, -30),
    (75, 60, -150),
    (-20, -75, 60),
]
POSITIONS_QUICK = [(12.0, -7.0, 3.0)]
POSITIONS_THOROUGH = [(12.0, -7.0, 3.0), (-30.0, 45.0, -8.0), (0.0, 0.0, 25.0)]
H_ANGLES = (30, 90, 200, 360)
V_ANGLES = (20, 90, 180)
ANGLES_ALL = [(h, v) for h in H_ANGLES for v in V_ANGLES]
ANGLES_OBJ_QUICK = [(30, 20), (90, 90), (200, 180), (360, 90)]
RAYS_DEFAULT = (5, None, False)  # viewRayDensity, viewRayCount, viewRayDistanceScaling
RAYS_CHEAP = (2, None, False)
RAYS_ALPHABET = [RAYS_DEFAULT, RAYS_CHEAP, (5, (120, 80), False), (0.5, None, True)]


def _wrap_deg(a):
    a = (a + 180.0) % 360.0 - 180.0
    return 180.0 if a == -180.0 else a


def eff_angles(ang):
    """Documented truncation: values above (360, 180) degrees are truncated."""
    return (min(ang[0], 360), min(ang[1], 180))


def point_lattice(ang):
    """Directions (az, alt in degrees, viewer frame) x radii (fractions of visibleDistance)."""
    h, v = eff_angles(ang)
    azs = {0.0, 180.0, 90.0, -90.0, 45.0, -135.0}
    if h < 360:
        for s in (1, -1):
            for d in (-3, 3):
                azs.add(_wrap_deg(s * (h / 2 + d)))
        az_edge = h / 2 - 3
    else:
        azs |= {179.0, -179.0}
        az_edge = 179.0
    alts = {0.0, 60.0, -60.0, 85.0, -85.0}
    if v < 180:
        for s in (1, -1):
            for d in (-3, 3):
                alts.add(s * (v / 2 + d))
        alt_edge = v / 2 - 3
    else:
        alts |= {88.5, -88.5}
        alt_edge = 85.0
    pts = [(az, alt, 0.6) for az in sorted(azs) for alt in sorted(alts)]
    for az, alt in ((0.0, 0.0), (az_edge, 0.0), (0.0, alt_edge), (-az_edge, -alt_edge), (45.0, 0.0)):
        for r in (0.2, 0.9, 1.1, 1.5):
            pts.append((az, alt, r))
    return pts


def occluders_for_points(vd):
    """Three box occluders in the viewer frame: (centre, (yaw,pitch,roll) deg, dims)."""
    d2 = M.direction(math.radians(45), 0.0)
    return [
        ((0.02 * vd, 0.35 * vd, 0.013 * vd), (5, 3, 0), (0.4 * vd, 0.1 + 0.02 * vd, 0.4 * vd)),
        ((-0.03 * vd, 0.8 * vd, 0.02 * vd), (-4, 2, 7), (1.0 * vd, 0.1 + 0.02 * vd, 1.0 * vd)),
        (tuple(0.35 * vd * d2 + np.array([0.0, 0.0, 0.011 * vd])), (51, 0, 10), (0.3 * vd, 0.1 + 0.05 * vd, 0.3 * vd)),
    ]


def near_occluder_dir(az, alt):
    d = M.direction(math.radians(az), math.radians(alt))
    for caz in (0.0, 45.0):
        c = M.direction(math.radians(caz), 0.0)
        if float(d @ c) >= math.cos(math.radians(35)):
            return True
    return False


def viewer_spec(kind, pos_mode, position, ypr, ang, vd, rays=RAYS_DEFAULT):
    """pos_mode 'off': the viewer's position is `position`; 'cam0': the camera sits at the origin."""
    if kind == "Point":
        ypr = (0, 0, 0)
    R = M.rot_deg(ypr)
    off = CAM_OFF if kind == "Object" else (0.0, 0.0, 0.0)
    if pos_mode == "cam0":
        pos = tuple(float(x) for x in (-(R @ np.array(off))))
    else:
        pos = tuple(float(x) for x in position)
    return {
        "kind": kind,
        "pos_mode": pos_mode,
        "pos": list(pos),
        "ypr": list(ypr),
        "ang": list(ang),
        "vd": vd,
        "rays": [rays[0], list(rays[1]) if rays[1] else None, rays[2]],
    }


def model_of(spec):
    """(camera, R, viewAngles in radians, visibleDistance) of the reference model."""
    kind = spec["kind"]
    R = np.eye(3) if kind == "Point" else M.rot_deg(spec["ypr"])
    off = CAM_OFF if kind == "Object" else (0.0, 0.0, 0.0)
    cam = M.camera(spec["pos"], R, off)
    if kind == "Point":
        ang = (2 * math.pi, math.pi)
    else:
        h, v = eff_angles(spec["ang"])
        ang = (math.radians(h), math.radians(v))
    return cam, R, ang, float(spec["vd"])


def affected_by_defect_class(spec):
    """Rotated viewer whose camera is not at the origin."""
    cam, R, _, _ = model_of(spec)
    return spec["kind"] != "Point" and not np.allclose(R, np.eye(3)) and float(np.linalg.norm(cam)) > 1e-9


def ypr_of_matrix(R):
    """Intrinsic Z-X-Y angles (radians) of a rotation matrix, or None near gimbal lock."""
    sp = float(R[2, 1])
    if abs(sp) > 0.9995:
        return None
    p = math.asin(sp)
    y = math.atan2(-R[0, 1], R[1, 1])
    r = math.atan2(-R[2, 0], R[2, 2])
    if not np.allclose(M.rot(y, p, r), R, atol=1e-9):
        return None
    return (y, p, r)


# ----------------------------------------------------------------------------------------
# Scenic side
# ----------------------------------------------------------------------------------------
_S = {}


def S():
    """Lazy import of the Scenic names used (inherited by forked workers)."""
    if not _S:
        from scenic.core.object_types import Object, OrientedPoint, Point
        from scenic.core.requirements import NonVisibilityRequirement, VisibilityRequirement
        from scenic.core.shapes import BoxShape, ConeShape, CylinderShape, MeshShape, SpheroidShape
        from scenic.core.vectors import Vector
        import scenic.syntax.veneer as veneer
        import trimesh

        frame = trimesh.creation.box(extents=(2.0, 0.4, 2.0)).difference(trimesh.creation.box(extents=(1.2, 1.0, 1.2)))
        if not frame.is_volume:
            raise HarnessError("the hollow-frame test mesh is not a volume")
        _S.update(
            Object=Object,
            OrientedPoint=OrientedPoint,
            Point=Point,
            Vector=Vector,
            veneer=veneer,
            VisReq=VisibilityRequirement,
            NonVisReq=NonVisibilityRequirement,
            shapes={
                "Box": BoxShape(),
                "Cylinder": CylinderShape(),
                "Cone": ConeShape(),
                "Spheroid": SpheroidShape(),
                "Frame": MeshShape(frame),
            },
        )
        if _S["shapes"]["Frame"].containsCenter or not _S["shapes"]["Box"].containsCenter:
            raise HarnessError("test shapes: the frame must not contain its centre, the box must")
    return types.SimpleNamespace(**_S)


def build_viewer(spec):
    s = S()
    V = s.Vector
    dens, cnt, scal = spec["rays"]
    common = dict(
        position=V(*spec["pos"]),
        visibleDistance=spec["vd"],
        viewRayDensity=dens,
        viewRayCount=tuple(cnt) if cnt else None,
        viewRayDistanceScaling=scal,
    )
    kind = spec["kind"]
    if kind == "Point":
        return s.Point._with(**common)
    y, p, r = (math.radians(a) for a in spec["ypr"])
    ang = (math.radians(spec["ang"][0]), math.radians(spec["ang"][1]))
    with warnings.catch_warnings():
        warnings.simplefilter("ignore")
        if kind == "OrientedPoint":
            return s.OrientedPoint._with(yaw=y, pitch=p, roll=r, viewAngles=ang, **common)
        return s.Object._with(
            yaw=y,
            pitch=p,
            roll=r,
            viewAngles=ang,
            cameraOffset=V(*CAM_OFF),
            width=VIEWER_DIMS[0],
            length=VIEWER_DIMS[1],
            height=VIEWER_DIMS[2],
            **common,
        )


def build_box(centre, Rm, dims, occluding=True):
    """Scenic box Object with rotation matrix Rm (decomposed here) + own mesh of the same box."""
    s = S()
    ypr = ypr_of_matrix(Rm)
    if ypr is None:
        return None
    obj = s.Object._with(
        position=s.Vector(*centre),
        yaw=ypr[0],
        pitch=ypr[1],
        roll=ypr[2],
        width=dims[0],
        length=dims[1],
        height=dims[2],
        occluding=occluding,
    )
    return obj


def check_placement(obj, verts, what):
    """Seam self-check: Scenic puts the object's mesh where the reference model thinks it is."""
    mine = np.asarray(verts)
    theirs = np.asarray(obj.occupiedSpace.mesh.vertices)
    if len(mine) == len(theirs):
        a = mine[np.lexsort(np.round(mine, 6).T)]
        b = theirs[np.lexsort(np.round(theirs, 6).T)]
        if np.allclose(a, b, atol=1e-6):
            return
    # fall back to bounding boxes + centroid (vertex order / duplicates may differ)
    if np.allclose(mine.min(0), theirs.min(0), atol=1e-6) and np.allclose(mine.max(0), theirs.max(0), atol=1e-6):
        return
    raise HarnessError(f"placement seam: Scenic's occupiedSpace of {what} is not where the reference model puts it")


class Scen:
    """Stub of the scenario under construction, as seen by veneer.CanSee."""

    def __init__(self, objects):
        self.objects = objects

    def __enter__(self):
        v = S().veneer
        self.old = v.currentScenario
        v.currentScenario = types.SimpleNamespace(_objects=list(self.objects))
        return self

    def __exit__(self, *a):
        S().veneer.currentScenario = self.old


def op_can_see(viewer, target, objects):
    with Scen(objects):
        return bool(S().veneer.CanSee(viewer, target))


def req_can_see(viewer, target, objects):
    """Visibility as decided by the two requirement classes (must be complementary)."""
    s = S()
    sample = {o: o for o in list(objects) + [viewer, target]}
    f1 = bool(s.VisReq(viewer, target, list(objects)).falsifiedBy(sample))
    f2 = bool(s.NonVisReq(viewer, target, list(objects)).falsifiedBy(sample))
    if f1 == f2:
        return None
    return f2


class Raised:
    """Marker: the implementation raised instead of answering."""

    def __init__(self, e):
        self.name = type(e).__name__
        self.text = f"{type(e).__name__}: {e}"[:300]


def guarded(f):
    try:
        return f()
    except HarnessError:
        raise
    except Exception as e:  # a visibility query on valid constant inputs must answer
        return Raised(e)


class Acc:
    """Per-item accumulator (picklable dict at the end)."""

    def __init__(self):
        self.c = {}
        self.viol = []
        self.nsig = {}
        self.samples = []
        self.flags = set()

    def inc(self, k, n=1):
        self.c[k] = self.c.get(k, 0) + n

    def violation(self, sig, desc, case):
        self.inc("violating_cases")
        n = self.nsig.get(sig, 0)
        self.nsig[sig] = n + 1
        if n < PER_SIG_CAP:
            self.viol.append((sig, desc, case))

    def out(self):
        return {"c": self.c, "viol": self.viol, "nsig": self.nsig, "samples": self.samples, "flags": sorted(self.flags)}


def fmt(x):
    if isinstance(x, (list, tuple, np.ndarray)):
        return "(" + ", ".join(fmt(float(v)) for v in x) + ")"
    return f"{x:.6g}"


def describe_viewer(spec):
    cam, R, ang, vd = model_of(spec)
    return (
        f"{spec['kind']} at {fmt(spec['pos'])} yaw/pitch/roll {tuple(spec['ypr'])} deg, viewAngles {tuple(spec['ang'])} deg, "
        f"visibleDistance {vd:g}"
        + (f", cameraOffset {CAM_OFF}" if spec["kind"] == "Object" else "")
        + f" (camera at {fmt(cam)}), rays {spec['rays']}"
    )


# ----------------------------------------------------------------------------------------
# work item 1: point targets
# ----------------------------------------------------------------------------------------
_DEFECT = []


def defect_present():
    """Canonical witness of the rotate-before-subtract defect (only used to NAME failures): a viewer
    at (0,-4,0) facing south with a 90 deg field of view 'sees' the point 5 m behind it."""
    if not _DEFECT:
        s = S()
        v = s.OrientedPoint._with(position=s.Vector(0, -4, 0), yaw=math.pi, viewAngles=(math.pi / 2, math.pi / 2), visibleDistance=10)
        got = guarded(lambda: bool(v.canSee(s.Vector(0, 1, 0))))
        _DEFECT.append(got is True)
    return _DEFECT[0]


def defect_prediction(cam, R, ang, vd, p, meshes):
    """Possible answers (a set of booleans) of the 'rotate the global target, then subtract the
    viewer position' computation, with its ray used for the occluders too.  Both answers are
    returned when that (wrong) computation itself sits on one of its bounds.  Only used to
    NAME a failure, never to decide one."""
    tol = 1e-6
    both = {True, False}
    p = np.asarray(p, float)
    td = float(np.linalg.norm(p - cam))
    if td > vd + tol:
        return {False}
    border = td > vd - tol
    local = R.T @ p - cam
    n = float(np.linalg.norm(local))
    if n < 1e-9:
        return both
    _, az, alt = M.sph(local)
    for val, half in ((abs(az), ang[0] / 2), (abs(alt), ang[1] / 2)):
        if val > half + tol:
            return {False}
        if val > half - tol:
            border = True
    if abs(alt) > math.radians(89.9) and ang[0] < 2 * math.pi - 1e-9:
        border = True  # azimuth of a vertical ray
    end = cam + (R @ (local / n)) * td
    for v, f in meshes:
        if M.segment_hits(cam, end, v, f, t_max=1.0 - tol) is not None:
            return both if border else {False}
        if M.segment_hits(cam, end, v, f, t_max=1.0 + tol) is not None:
            border = True
    return both if border else {True}


def eval_points(spec):
    s = S()
    acc = Acc()
    V = s.Vector
    cam, R, ang, vd = model_of(spec)
    kind = spec["kind"]
    viewer = build_viewer(spec)
    region = viewer.visibleRegion
    rotated_off = affected_by_defect_class(spec)
    affected = rotated_off and defect_present()
    rad_m = RAD_M_FRAC * vd
    angkey = "-" if kind == "Point" else f"{spec['ang'][0]}x{spec['ang'][1]}"
    key = f"{kind}|{angkey}"

    # occluders (viewer frame -> world), in an occluding and a non-occluding copy
    occ_objs, occ_off, occ_mesh = [], [], []
    for centre, oypr, dims in occluders_for_points(vd):
        Rm = R @ M.rot_deg(oypr)
        c = cam + R @ np.array(centre)
        a = build_box(c, Rm, dims, True)
        b = build_box(c, Rm, dims, False)
        if a is None:
            acc.inc("skipped_gimbal")
            continue
        mv, mf = M.box_mesh(dims, Rm, c)
        check_placement(a, mv, "a box occluder")
        occ_objs.append(a)
        occ_off.append(b)
        occ_mesh.append((mv, mf))
    have_occ = len(occ_objs) == 3
    base_objects = ([viewer] if kind == "Object" else []) + occ_off

    def report(route, obs, exp, p, lat, S_idx, extra=""):
        meshes = [occ_mesh[i] for i in S_idx]
        sig = None
        if affected and route != "visibleRegion":
            if obs in defect_prediction(cam, R, ang, vd, p, meshes):
                sig = DEFECT_SIG
        if sig is None:
            if route == "visibleRegion":
                sig = f"visible-region:contains-mismatch:{kind}"
                if kind == "Point":
                    # name the failure if it is what a sphere of HALF the documented radius answers
                    dd = float(np.linalg.norm(np.asarray(p) - cam))
                    if abs(dd - vd / 2) > 0.02 * vd and obs == (dd <= vd / 2):
                        sig = "visible-region:point-viewer-sphere-radius-is-half-visibleDistance"
            else:
                sig = f"point-visibility:{'false-positive' if obs else 'false-negative'}:{kind}:{route}" + (":occluders" if S_idx else "")
        d, az, alt = M.sph(M.to_local(cam, R, p))
        acc.violation(
            sig,
            f"viewer: {describe_viewer(spec)}\n"
            f"target point {fmt(p)}: in the viewer's frame from the camera distance {d:.4g}, azimuth {math.degrees(az):.3f} deg, "
            f"altitude {math.degrees(alt):.3f} deg; occluder subset {list(S_idx)}{extra}\n"
            f"expected visible={exp} (reference model), observed {obs} via {route}",
            {"type": "points", "spec": spec, "lat": list(lat), "route": route, "subset": list(S_idx)},
        )

    n_lat = 0
    for lat in point_lattice(spec["ang"]):
        az, alt, rf = lat
        p = cam + R @ (rf * vd * M.direction(math.radians(az), math.radians(alt)))
        cls = M.classify_point(cam, R, ang, vd, p, ANG_M, rad_m)
        if cls == M.EDGE:
            acc.inc("skipped_touching")
            continue
        exp = cls == M.IN
        acc.inc("point_cases")
        acc.flags.add(f"{key}|{'T' if exp else 'F'}")
        if rotated_off:
            acc.inc("rotated_off_origin_cases")
        if M.classify_point(cam, np.eye(3), ang, vd, p, 0.0, 0.0) != cls:
            acc.inc("nontrivial_orientation")
        pv = V(*p)
        # target forms alternate along the lattice: operator gets a Point object / a raw vector,
        # the requirement classes get the same Point / an OrientedPoint
        n_lat += 1
        if n_lat % 2:
            tp = top = s.Point._with(position=pv)
        else:
            tp = pv
            top = s.OrientedPoint._with(position=pv, yaw=0.3)
        # -- no occluders (the non-occluding copies are present in the plumbing routes)
        routes = [
            ("canSee", lambda: bool(viewer.canSee(pv))),
            ("can-see-operator", lambda: op_can_see(viewer, tp, base_objects)),
            ("requirement-classes", lambda: req_can_see(viewer, top, base_objects)),
            ("visibleRegion", lambda: bool(region.containsPoint(pv))),
        ]
        for route, f in routes:
            obs = guarded(f)
            acc.inc("evaluations")
            if isinstance(obs, Raised):
                acc.violation(
                    f"visibility-query-raises:{obs.name}:{kind}:{route}",
                    f"viewer: {describe_viewer(spec)}\ntarget point {fmt(p)}, no occluders: {route} raised {obs.text}",
                    {"type": "points", "spec": spec, "lat": list(lat), "route": route, "subset": []},
                )
            elif obs is None:
                acc.violation(
                    f"requirement-classes:not-complementary:{kind}",
                    f"viewer: {describe_viewer(spec)}\nVisibilityRequirement and NonVisibilityRequirement give the same falsifiedBy "
                    f"answer for point {fmt(p)} (they must be complementary)",
                    {"type": "points", "spec": spec, "lat": list(lat), "route": route, "subset": []},
                )
            elif obs != exp:
                report(route, obs, exp, p, lat, ())
        if len(acc.samples) < 2:
            acc.samples.append({"viewer": describe_viewer(spec), "point": [round(float(x), 4) for x in p], "expected_visible": exp})
        # -- occluder subsets
        if not have_occ or not (near_occluder_dir(az, alt)):
            continue
        for S_idx in SUBSETS[1:]:
            meshes = [occ_mesh[i] for i in S_idx]
            sl = M.sightline(cam, p, meshes)
            if cls == M.OUT or sl == M.BLOCKED:
                exp_s = False
            elif sl == M.CLEAR:
                exp_s = True
            else:
                acc.inc("skipped_grazing")
                continue
            acc.inc("point_occluder_cases")
            if exp and not exp_s:
                acc.inc("occlusion_flips")
            if exp and exp_s:
                acc.inc("occluders_present_but_clear")
            objs_direct = tuple(occ_objs[i] for i in S_idx)
            mixed = ([viewer] if kind == "Object" else []) + [occ_objs[i] if i in S_idx else occ_off[i] for i in range(3)]
            rs = [("canSee", lambda: bool(viewer.canSee(pv, occludingObjects=objs_direct)))]
            if len(S_idx) != 2:
                rs.append(("can-see-operator", lambda: op_can_see(viewer, tp, mixed)))
            else:
                rs.append(("requirement-classes", lambda: req_can_see(viewer, top, mixed)))
            for route, f in rs:
                obs = guarded(f)
                acc.inc("evaluations")
                if isinstance(obs, Raised):
                    acc.violation(
                        f"visibility-query-raises:{obs.name}:{kind}:{route}",
                        f"viewer: {describe_viewer(spec)}\ntarget point {fmt(p)}, occluder subset {list(S_idx)}: {route} raised {obs.text}",
                        {"type": "points", "spec": spec, "lat": list(lat), "route": route, "subset": list(S_idx)},
                    )
                elif obs is not None and obs != exp_s:
                    report(route, obs, exp_s, p, lat, S_idx, f" (sight line {sl})")
    return acc.out()


# ----------------------------------------------------------------------------------------
# work item 2: object targets
# ----------------------------------------------------------------------------------------
SHAPES = ("Box", "Cylinder", "Cone", "Spheroid", "Frame")
# inscribed ball of each unit shape: (centre in the unit bounding box, radius as a fraction)
INBALL = {
    "Box": ((0, 0, 0), 0.5),
    "Cylinder": ((0, 0, 0), 0.49),
    "Cone": ((0, 0, -0.5 + 0.30), 0.26),
    "Spheroid": ((0, 0, 0), 0.47),
    "Frame": ((0.4, 0, 0), 0.1),  # middle of one bar; frame bbox is (2, .4, 2) -> unit (1, 1, 1)
}


def target_dims(shape, size):
    if shape == "Frame":
        return (size, 0.2 * size, size)
    return (size, size, size)


def placements(ang, vd):
    """(label, az, alt, distance) of object targets in the viewer frame."""
    h, v = eff_angles(ang)
    out = [("ahead", 0.0, 0.0, 0.6 * vd), ("behind", 180.0, 0.0, 0.6 * vd), ("elevated", 20.0, 35.0, 0.5 * vd)]
    out.append(("beyond", 0.0, 0.0, vd + 3.0))
    out.append(("straddle-distance", 0.0, 0.0, vd))
    if h < 360:
        out.append(("straddle-h", h / 2, 0.0, 0.6 * vd))
        if h / 2 + 25 <= 180:
            out.append(("outside-h", -(h / 2 + 25), 0.0, 0.6 * vd))
        out.append(("inside-near-h", h / 2 - min(h / 4, 18), 0.0, 0.6 * vd))
    if v < 180:
        out.append(("straddle-v", 0.0, v / 2, 0.6 * vd))
        if v / 2 + 25 <= 75:
            out.append(("outside-v", 0.0, v / 2 + 25, 0.6 * vd))
    else:
        out.append(("high", -30.0, 60.0, 0.6 * vd))
    return out


def ray_spacing_deg(spec, dist):
    """Nominal angular spacing of the ray lattice, degrees (max over the two dimensions)."""
    dens, cnt, scal = spec["rays"]
    if spec["kind"] == "Point":
        h, v = 360.0, 180.0
    else:
        h, v = eff_angles(spec["ang"])
    if cnt:
        return max(h / cnt[0], v / cnt[1])
    d = dens * (dist if scal else 1.0)
    return 1.0 / d


def object_case(spec, shape, size, typr, place):
    return {"spec": spec, "shape": shape, "size": size, "typr": list(typr), "place": list(place)}


def eval_object(case):
    s = S()
    acc = Acc()
    spec = case["spec"]
    shape, size, typr = case["shape"], case["size"], case["typr"]
    label, az, alt, dist = case["place"]
    kind = spec["kind"]
    cam, R, ang, vd = model_of(spec)
    viewer = build_viewer(spec)
    rotated_off = affected_by_defect_class(spec)
    affected = rotated_off and defect_present()
    rad_m = RAD_M_FRAC * vd
    angkey = "-" if kind == "Point" else f"{spec['ang'][0]}x{spec['ang'][1]}"
    key = f"{kind}|{angkey}"

    u_local = M.direction(math.radians(az), math.radians(alt))
    centre = cam + R @ (dist * u_local)
    dims = target_dims(shape, size)
    Rt = M.rot_deg(typr)
    sh = s.shapes[shape]
    target = s.Object._with(
        position=s.Vector(*centre),
        yaw=math.radians(typr[0]),
        pitch=math.radians(typr[1]),
        roll=math.radians(typr[2]),
        shape=sh,
        width=dims[0],
        length=dims[1],
        height=dims[2],
    )
    tverts = M.place_mesh(np.asarray(sh.mesh.vertices), dims, Rt, centre)
    check_placement(target, tverts, f"a {shape} target")
    rb = float(np.max(np.linalg.norm(tverts - centre, axis=1)))
    cls = M.classify_ball(cam, R, ang, vd, centre, rb, ANG_M, rad_m)
    inflated = M.inflate(tverts, centre, 1.2)

    # occluders relative to the sight line: frame F with local +Y along the line of sight
    F = R @ M.rot(math.radians(az), math.radians(alt), 0.0)
    wide = 2.4 * rb * 1.2 + 1.0
    defs = [
        # full wall just in front of the target (shifted off-centre so that no ray runs
        # exactly along a triangle diagonal)
        ((0.137, dist - 1.2 * rb - 0.6, 0.071), (3, 2, 5), (wide, 0.2, wide)),
        # wall just behind the target
        ((-0.09, dist + 1.2 * rb + 0.9, 0.05), (-4, 3, 0), (wide, 0.2, wide)),
        # partial cover: a slab over the left part, closer to the camera
        ((-0.33 * rb - 0.05, 0.55 * dist, 0.02), (2, 0, 8), (0.66 * rb, 0.15, 1.5 * rb)),
    ]
    occ_objs, occ_off, occ_mesh = [], [], []
    for c_l, oypr, odims in defs:
        Rm = F @ M.rot_deg(oypr)
        c = cam + F @ np.array(c_l)
        a = build_box(c, Rm, odims, True)
        if a is None:
            acc.inc("skipped_gimbal")
            return acc.out()
        b = build_box(c, Rm, odims, False)
        mv, mf = M.box_mesh(odims, Rm, c)
        occ_objs.append(a)
        occ_off.append(b)
        occ_mesh.append((mv, mf))
    check_placement(occ_objs[0], occ_mesh[0][0], "a wall occluder")

    shadow = [M.in_shadow_of(cam, list(inflated) + [centre], mv, mf) for mv, mf in occ_mesh]
    behind = [M.wholly_behind(cam, inflated, mv, 0.1) for mv, mf in occ_mesh]

    # is the ray lattice fine enough for the documented "finite number of rays" caveat not to apply?
    ic, ir = INBALL[shape]
    ball_c = centre + Rt @ (np.array(ic) * np.array(dims))
    ball_r = ir * min(dims) * 0.85
    dcb = float(np.linalg.norm(ball_c - cam))
    ball_diam = 2 * math.degrees(math.asin(min(1.0, ball_r / dcb))) if dcb > ball_r else 180.0
    dense = ball_diam >= 4.0 * ray_spacing_deg(spec, float(np.linalg.norm(centre - cam)))

    vis = {}
    for S_idx in SUBSETS:
        got = guarded(lambda: bool(viewer.canSee(target, occludingObjects=tuple(occ_objs[i] for i in S_idx))))
        acc.inc("evaluations")
        if isinstance(got, Raised):
            acc.violation(
                f"visibility-query-raises:{got.name}:{kind}:canSee-object",
                f"viewer: {describe_viewer(spec)}\ntarget: {shape} {fmt(dims)} at {fmt(centre)} yaw/pitch/roll {tuple(typr)} deg ({label}), "
                f"occluder subset {list(S_idx)}: canSee raised {got.text}",
                dict(case, type="object", what="raises", subset=list(S_idx)),
            )
            return acc.out()
        vis[S_idx] = got
    acc.inc("object_cases")
    acc.inc(f"object_class_{cls}")
    if rotated_off:
        acc.inc("rotated_off_origin_cases")

    def describe(S_idx):
        d, a2, al2 = M.sph(M.to_local(cam, R, centre))
        return (
            f"viewer: {describe_viewer(spec)}\n"
            f"target: {shape} {fmt(dims)} at {fmt(centre)} yaw/pitch/roll {tuple(typr)} deg ({label}); centre in the viewer's frame: "
            f"distance {d:.4g}, azimuth {math.degrees(a2):.2f} deg, altitude {math.degrees(al2):.2f} deg, bounding radius {rb:.3g}; "
            f"bounding ball vs view volume: {cls}\n"
            f"occluders (walls: in front / behind / partial) subset {list(S_idx)}; target wholly in the shadow of: "
            f"{[i for i in S_idx if shadow[i]]}"
        )

    def name_fp(S_idx, default):
        """Name a false positive: explained by the point-target defect through the centre shortcut?"""
        if affected and sh.containsCenter:
            if True in defect_prediction(cam, R, ang, vd, centre, [occ_mesh[i] for i in S_idx]):
                return DEFECT_SIG
        return default

    def mkcase(what, S_idx):
        c = dict(case)
        c.update(type="object", what=what, subset=list(S_idx))
        return c

    for S_idx in SUBSETS:
        v = vis[S_idx]
        eff = [i for i in S_idx if not behind[i]]
        hidden = any(shadow[i] for i in S_idx)
        judged = False
        if cls == M.OUT:
            judged = True
            acc.flags.add(f"obj|{key}|F")
            if v:
                acc.violation(
                    name_fp(S_idx, f"object-visibility:outside-view-volume-reported-visible:{kind}"),
                    describe(S_idx) + "\nexpected: not visible (wholly outside the view volume by the margin); observed: canSee = True",
                    mkcase("outside", S_idx),
                )
        elif hidden:
            judged = True
            acc.flags.add(f"obj|{key}|F")
            if v:
                acc.violation(
                    name_fp(S_idx, f"object-visibility:fully-occluded-reported-visible:{kind}"),
                    describe(S_idx) + "\nexpected: not visible (every sight line from the camera to the target's inflated hull meets one "
                    "convex occluder first); observed: canSee = True",
                    mkcase("hidden", S_idx),
                )
        elif cls == M.IN and not eff:
            if dense:
                judged = True
                acc.flags.add(f"obj|{key}|T")
                if S_idx:
                    acc.inc("object_occluder_behind_cases")
                if not v:
                    acc.violation(
                        f"object-visibility:inside-unoccluded-not-visible:{kind}:{shape}",
                        describe(S_idx) + f"\nexpected: visible (bounding ball inside the view volume by the margin, no occluder nearer than the "
                        f"target, inscribed ball of {ball_diam:.2f} deg >= 4 ray spacings); observed: canSee = False",
                        mkcase("inside", S_idx),
                    )
            else:
                acc.inc("unspecified_sparse_rays")
        if judged:
            acc.inc("object_judgements")
        else:
            acc.inc("object_unjudged_subsets")
    if vis[()] and any(shadow) and cls != M.OUT:
        acc.inc("occlusion_flips")
    # monotonicity over all pairs S subset S'
    for A in SUBSETS:
        for B in SUBSETS:
            if A != B and set(A) < set(B):
                acc.inc("monotonicity_pairs")
                if vis[B] and not vis[A]:
                    acc.violation(
                        f"object-visibility:occluder-monotonicity:{kind}",
                        describe(B) + f"\nvisible with occluders {list(B)} but NOT visible with the smaller set {list(A)}",
                        mkcase("monotone", B),
                    )
    # the same cases through the operator and the requirement classes (occluding flags select S)
    vobj = [viewer] if kind == "Object" else []
    for S_idx, route in (((), "can-see-operator"), ((0, 1, 2), "can-see-operator"), ((1, 2), "requirement-classes"), ((0,), "requirement-classes")):
        # a fully occluded check is the expensive one: through the plumbing only for two shapes
        if 0 in S_idx and cls != M.OUT and shape not in ("Box", "Cone"):
            continue
        mixed = vobj + [target] + [occ_objs[i] if i in S_idx else occ_off[i] for i in range(3)]
        if route == "can-see-operator":
            obs = guarded(lambda: op_can_see(viewer, target, mixed))
        else:
            obs = guarded(lambda: req_can_see(viewer, target, mixed))
        acc.inc("evaluations")
        if isinstance(obs, Raised):
            obs = "raised " + obs.text
        if obs is None or obs != vis[S_idx]:
            acc.violation(
                f"route-disagreement:{route}:{kind}",
                describe(S_idx) + f"\ncanSee(target, occludingObjects=subset) = {vis[S_idx]} but {route} (same objects, the others with "
                f"occluding False, viewer and target in the object list) gives {obs}",
                mkcase("route:" + route, S_idx),
            )
    if len(acc.samples) < 1:
        acc.samples.append(
            {"viewer": describe_viewer(spec), "target": f"{shape} {label}", "class": cls, "visible_by_subset": {str(list(k)): v for k, v in vis.items()}}
        )
    return acc.out()


# ----------------------------------------------------------------------------------------
# work item 3: compiled all-constant programs
# ----------------------------------------------------------------------------------------
def _num(x):
    return repr(float(x))


def _vec(p):
    return "(" + ", ".join(_num(x) for x in p) + ")"


def _orient(ypr_rad):
    return f"with yaw {_num(ypr_rad[0])}, with pitch {_num(ypr_rad[1])}, with roll {_num(ypr_rad[2])}"


def program_cases(spec):
    """Programs for one viewer: list of dicts {form, text, expect_accept, why}."""
    cam, R, ang, vd = model_of(spec)
    kind = spec["kind"]
    h, v = (360, 180) if kind == "Point" else eff_angles(spec["ang"])
    rad_m = RAD_M_FRAC * vd
    head = ["workspace = Workspace(BoxRegion(dimensions=(900, 900, 900)))"]
    vl = f"v = new {kind} at {_vec(spec['pos'])}, with visibleDistance {_num(vd)}"
    if kind != "Point":
        vl += ", " + _orient([math.radians(a) for a in spec["ypr"]])
        vl += f", with viewAngles ({_num(math.radians(spec['ang'][0]))}, {_num(math.radians(spec['ang'][1]))})"
    if kind == "Object":
        vl += f", with cameraOffset {_vec(CAM_OFF)}, with width {VIEWER_DIMS[0]}, with length {VIEWER_DIMS[1]}, with height {VIEWER_DIMS[2]}, with allowCollisions True"
    head.append(vl)
    if kind == "Object":
        head.append("ego = v")
    # a wall ahead of the viewer
    wc_l, wypr, wdims = (0.137, 0.45 * vd, 0.071), (3, 2, 5), (0.5 * vd, 0.2, 0.5 * vd)
    Rw = R @ M.rot_deg(wypr)
    wy = ypr_of_matrix(Rw)
    if wy is None:
        return []
    wc = cam + R @ np.array(wc_l)
    wmesh = M.box_mesh(wdims, Rw, wc)

    def wall(occluding):
        return (
            f"wall = new Object at {_vec(wc)}, {_orient(wy)}, with width {_num(wdims[0])}, with length {_num(wdims[1])}, "
            f"with height {_num(wdims[2])}, with allowCollisions True, with occluding {occluding}"
        )

    out = []

    def loc(az, alt, rf):
        return cam + R @ (rf * vd * M.direction(math.radians(az), math.radians(alt)))

    # ---- point targets -------------------------------------------------------------
    pts = [("near", loc(0, 0, 0.25)), ("behind-wall", loc(0, 0, 0.7)), ("too-far", loc(0, 0, 1.3))]
    if h < 360:
        pts.append(("outside-h", loc(180, 0, 0.5)))
    if v < 180:
        pts.append(("outside-v", loc(0, min(v / 2 + 20, 85), 0.5)))
    for pname, p in pts:
        cls = M.classify_point(cam, R, ang, vd, p, ANG_M, rad_m)
        if cls == M.EDGE:
            continue
        for occluding in (True, False) if pname == "behind-wall" else (True,):
            sl = M.sightline(cam, p, [wmesh]) if occluding else M.CLEAR
            if cls == M.OUT or sl == M.BLOCKED:
                vis = False
            elif sl == M.CLEAR:
                vis = True
            else:
                continue
            forms = [
                ("require-can-see-vector", [f"require v can see {_vec(p)}"], vis),
                ("require-can-see-point", [f"t = new Point at {_vec(p)}", "require v can see t"], vis),
                ("require-not-can-see-point", [f"t = new OrientedPoint at {_vec(p)}", "require not (v can see t)"], not vis),
                ("visible-from-point", [f"t = new Point at {_vec(p)}, visible from v"], vis),
                ("not-visible-from-point", [f"t = new OrientedPoint at {_vec(p)}, not visible from v"], not vis),
            ]
            for form, lines, acc_exp in forms:
                out.append(
                    {
                        "form": form,
                        "text": "\n".join(head + [wall(occluding)] + lines) + "\n",
                        "expect_accept": acc_exp,
                        "why": f"point {pname} {fmt(p)}: view volume {cls}, wall occluding={occluding}, sight line {sl} => visible={vis}",
                        "group": f"point:{pname}:{occluding}",
                        "p": [float(x) for x in p],
                        "occluding": occluding,
                    }
                )
    # ---- object targets ------------------------------------------------------------
    size = 0.1 * vd
    objs = [("near", loc(0, 0, 0.25), "SpheroidShape()"), ("behind-wall", loc(0, 0, 0.45 + 0.13), "BoxShape()"), ("too-far", loc(0, 0, 1.4), "ConeShape()")]
    if h < 360:
        objs.append(("outside-h", loc(180, 0, 0.5), "CylinderShape()"))
    clear_spot = loc(0, 0, 0.25)
    first_ok = M.classify_ball(cam, R, ang, vd, clear_spot, size * math.sqrt(3) / 2, ANG_M, rad_m) == M.IN
    for oname, c, shp in objs:
        rb = size * math.sqrt(3) / 2
        cls = M.classify_ball(cam, R, ang, vd, c, rb, ANG_M, rad_m)
        # bounding box corners of the (axis-aligned, unrotated) target, inflated
        corners = np.array([[sx, sy, sz] for sx in (-1, 1) for sy in (-1, 1) for sz in (-1, 1)], float) * (size / 2) * 1.2 + c
        for occluding in (True, False) if oname == "behind-wall" else (True,):
            hidden = occluding and M.in_shadow_of(cam, list(corners) + [c], *wmesh)
            irrelevant = (not occluding) or M.wholly_behind(cam, corners, wmesh[0], 0.1)
            if cls == M.OUT or hidden:
                vis = False
            elif cls == M.IN and irrelevant:
                vis = True
            else:
                continue
            tdef = f"at {_vec(c)}, with shape {shp}, with width {_num(size)}, with length {_num(size)}, with height {_num(size)}, with allowCollisions True"
            forms = [
                ("require-can-see-object", [f"t = new Object {tdef}", "require v can see t"], vis),
                ("visible-from-object", [f"t = new Object {tdef}, visible from v"], vis),
                ("not-visible-from-object", [f"t = new Object {tdef}, not visible from v"], not vis),
            ]
            if kind == "Object":
                forms.append(("requireVisible", [f"t = new Object {tdef}, with requireVisible True"], vis))
            if oname != "near" and first_ok:
                # a first observed object (clearly visible) before the one under test
                first = f"t0 = new Object at {_vec(clear_spot)}, with width {_num(size)}, with length {_num(size)}, with height {_num(size)}, with allowCollisions True, with occluding False, visible from v"
                forms.append(("second-visible-from-object", [first, f"t = new Object {tdef}, visible from v"], vis))
                forms.append(("second-not-visible-from-object", [first, f"t = new Object {tdef}, not visible from v"], not vis))
            for form, lines, acc_exp in forms:
                out.append(
                    {
                        "form": form,
                        "text": "\n".join(head + [wall(occluding)] + lines) + "\n",
                        "expect_accept": acc_exp,
                        "why": f"object {oname} {shp} size {size:g} at {fmt(c)}: bounding ball vs view volume {cls}, wall occluding={occluding}, "
                        f"hidden={hidden} => visible={vis}",
                        "group": f"object:{oname}:{occluding}",
                        "p": [float(x) for x in c],
                        "occluding": occluding,
                    }
                )
    return out


def run_program(text):
    import scenic
    from scenic.core.distributions import RejectionException
    from scenic.core.errors import InvalidScenarioError

    with warnings.catch_warnings():
        warnings.simplefilter("ignore")
        try:
            sc = scenic.scenarioFromString(text, mode2D=False)
        except InvalidScenarioError as e:
            if "not visible from ego" in str(e):
                return "reject", "InvalidScenarioError: " + str(e)
            return "error", "InvalidScenarioError: " + str(e)
        except Exception as e:
            return "raised", f"{type(e).__name__}: {e}"[:300]
        try:
            sc.generate(maxIterations=2, verbosity=0)
            return "accept", ""
        except RejectionException as e:
            return "reject", str(e)
        except Exception as e:
            return "raised", f"{type(e).__name__}: {e}"[:300]


PROGRAM_PARTS = 6


def eval_programs(payload):
    spec, part = payload["spec"], payload.get("part")
    acc = Acc()
    cam, R, ang, vd = model_of(spec)
    kind = spec["kind"]
    rotated_off = affected_by_defect_class(spec)
    affected = rotated_off and defect_present()
    groups = []
    passed = set()  # (group, form) that behaved as the reference says
    for pc in program_cases(spec):
        if pc["group"] not in groups:
            groups.append(pc["group"])
        if part is not None and groups.index(pc["group"]) % PROGRAM_PARTS != part:
            continue
        res, msg = run_program(pc["text"])
        acc.inc("evaluations")
        acc.inc("programs")
        if res == "error":
            raise HarnessError(f"C17 program does not compile: {msg}\n{pc['text']}")
        if res == "raised":
            acc.violation(
                f"scenario:{pc['form']}:raises:{msg.split(':')[0]}:{kind}",
                f"{pc['why']}\ncompiling / generating the all-constant program raised {msg}\n{pc['text']}",
                {"type": "program", "spec": spec, "form": pc["form"], "text": pc["text"], "expect_accept": pc["expect_accept"]},
            )
            continue
        acc.flags.add(f"prog|{pc['form']}|{'A' if pc['expect_accept'] else 'R'}")
        if (res == "accept") != pc["expect_accept"]:
            sig = None
            if pc["form"].startswith("second-") and (pc["group"], pc["form"][len("second-") :]) in passed:
                # the same requirement on the same target is handled correctly when it is the first one
                sig = "visibility-requirement:occluders-dropped-after-first-observed-object"
            elif affected:
                # explained by the point-target defect (directly, or through the centre shortcut)?
                wc_l, wypr, wdims = (0.137, 0.45 * vd, 0.071), (3, 2, 5), (0.5 * vd, 0.2, 0.5 * vd)
                wmesh = M.box_mesh(wdims, R @ M.rot_deg(wypr), cam + R @ np.array(wc_l))
                form = pc["form"][len("second-") :] if pc["form"].startswith("second-") else pc["form"]
                negated = form.startswith(("require-not", "not-visible"))
                seen = (res == "accept") != negated  # what Scenic decided: target visible?
                pred = defect_prediction(cam, R, ang, vd, np.array(pc["p"]), [wmesh] if pc["occluding"] else [])
                if pc["form"].startswith("second-"):
                    pred = pred | defect_prediction(cam, R, ang, vd, np.array(pc["p"]), [])
                if pc["group"].startswith("object:"):
                    # through the centre shortcut the defect can only turn 'not visible' into 'visible'
                    if seen and True in pred:
                        sig = DEFECT_SIG
                elif seen in pred:
                    sig = DEFECT_SIG
            if sig is None:
                sig = f"scenario:{pc['form']}:{'accepted' if res == 'accept' else 'rejected'}-against-reference:{kind}"
            acc.violation(
                sig,
                f"{pc['why']}\nexpected scene generation to {'accept' if pc['expect_accept'] else 'reject'}, observed {res} {msg}\n{pc['text']}",
                {"type": "program", "spec": spec, "form": pc["form"], "text": pc["text"], "expect_accept": pc["expect_accept"]},
            )
        else:
            passed.add((pc["group"], pc["form"]))
        if len(acc.samples) < 1:
            acc.samples.append({"program": pc["text"], "expect_accept": pc["expect_accept"], "why": pc["why"]})
    return acc.out()


# ----------------------------------------------------------------------------------------
# work item 4: geometry where a cheap test (centre / radius) and the exact test disagree
#   - occluders that are LARGE relative to visibleDistance and OFF-CENTRE: their centre is
#     beyond visibleDistance (1.5x) or beyond twice that (2.8x) from the camera, their body
#     crosses the camera-target segment close to the camera
#   - long targets: centre beyond visibleDistance but a near part well inside the view volume
#     (must be visible); nearest point within visibleDistance but outside the view angles while
#     the part within the angles is beyond visibleDistance (must not be visible)
# ----------------------------------------------------------------------------------------
def far_walls(vd, d_hat, s, tier):
    """(label, k, centre, rotation, dims) of walls in the viewer frame that cross the sight line
    along d_hat at distance s from the camera and whose centre is k * vd away along the wall."""
    zl = np.array([0.0, 0.0, 1.0])
    xs = np.cross(d_hat, zl)
    if np.linalg.norm(xs) < 0.2:
        xs = np.array([1.0, 0.0, 0.0])
    xs = xs / np.linalg.norm(xs)
    zs = np.cross(xs, d_hat)
    back = -0.8 * d_hat + 0.6 * xs
    defs = [
        ("sideways", 1.5, xs, d_hat),
        ("sideways-opposite", 2.8, -xs, d_hat),
        ("above", 2.8, zs, d_hat),
        ("below", 1.5, -zs, d_hat),
        ("behind-and-wrapping", 2.8, back, 0.6 * d_hat + 0.8 * xs),
    ]
    if tier != "quick":
        defs += [(lab, 4.3 - k, e, n) for lab, k, e, n in defs]
    out = []
    for lab, k, e, n in defs:
        F = M.frame_from_axes(e, n)
        long_len = 2 * k * vd + 2 * vd
        centre = s * d_hat + k * vd * F[:, 0]
        out.append((lab, k, centre, F, (long_len, 0.15 + 0.01 * vd, 0.5 * vd)))
    return out


def eval_far(payload):
    s = S()
    acc = Acc()
    spec, tier = payload["spec"], payload["tier"]
    V = s.Vector
    cam, R, ang, vd = model_of(spec)
    kind = spec["kind"]
    viewer = build_viewer(spec)
    rad_m = RAD_M_FRAC * vd
    h, v = (360, 180) if kind == "Point" else eff_angles(spec["ang"])
    vobj = [viewer] if kind == "Object" else []

    def world_box(centre_l, F_l, dims, occluding=True):
        Rm = R @ F_l
        c = cam + R @ np.asarray(centre_l)
        obj = build_box(c, Rm, dims, occluding)
        if obj is None:
            acc.inc("skipped_gimbal")
            return None
        mesh = M.box_mesh(dims, Rm, c)
        return obj, mesh, c, Rm

    def mk(what, extra):
        c = {"type": "far", "spec": spec, "tier": tier, "what": what}
        c.update(extra)
        return c

    def ask(route, target, objs):
        if route == "canSee":
            return guarded(lambda: bool(viewer.canSee(target, occludingObjects=tuple(o for o in objs if o.occluding))))
        if route == "can-see-operator":
            return guarded(lambda: op_can_see(viewer, target, vobj + list(objs)))
        tt = target if not isinstance(target, V) else s.Point._with(position=target)
        return guarded(lambda: req_can_see(viewer, tt, vobj + list(objs)))

    def judge(obs, exp, sig_core, desc, case):
        acc.inc("evaluations")
        if isinstance(obs, Raised):
            acc.violation(f"visibility-query-raises:{obs.name}:{kind}:far", desc + f"\nraised {obs.text}", case)
        elif obs is None or obs != exp:
            acc.violation(sig_core, desc + f"\nexpected visible={exp} (reference model), observed {obs}", case)

    # ---- A. point targets behind / in front of large off-centre walls
    dirs = [(0.0, 0.0), (min(h / 4, 35.0), -min(v / 4, 25.0))]
    first_wall_checked = False
    for di, (az, alt) in enumerate(dirs):
        d_hat = M.direction(math.radians(az), math.radians(alt))
        for wi, (lab, k, c_l, F_l, dims) in enumerate(far_walls(vd, d_hat, 0.35 * vd, tier)):
            wb = world_box(c_l, F_l, dims)
            if wb is None:
                continue
            wall, mesh, wc, Rm = wb
            if not first_wall_checked:
                check_placement(wall, mesh[0], "a large wall")
                first_wall_checked = True
            centre_dist = float(np.linalg.norm(wc - cam))
            near_dist = M.point_box_distance(cam, wc, Rm, dims)
            for rf in (0.6, 0.2):
                p = cam + R @ (rf * vd * d_hat)
                cls = M.classify_point(cam, R, ang, vd, p, ANG_M, rad_m)
                sl = M.sightline(cam, p, [mesh])
                if cls != M.IN or sl == M.GRAZING:
                    acc.inc("skipped_touching")
                    continue
                exp = sl == M.CLEAR
                acc.inc("far_point_cases")
                if not exp and centre_dist > vd and near_dist < vd:
                    acc.inc("far_centre_gt_vd_blocking")
                if not exp and centre_dist > 2 * vd and near_dist < vd:
                    acc.inc("far_centre_gt_2vd_blocking")
                acc.flags.add(f"far|{'T' if exp else 'F'}")
                pv = V(*p)
                for route in ("canSee", "can-see-operator" if wi % 2 == 0 else "requirement-classes"):
                    obs = ask(route, pv, [wall])
                    judge(
                        obs,
                        exp,
                        f"point-visibility:{'false-positive' if not exp else 'false-negative'}:{kind}:{route}:large-off-centre-occluder",
                        f"viewer: {describe_viewer(spec)}\ntarget point {fmt(p)} at {rf:g} x visibleDistance in direction az {az:g} alt {alt:g} deg; "
                        f"occluder: wall '{lab}' {fmt(dims)} centred at {fmt(wc)} = {centre_dist / vd:.2f} x visibleDistance from the camera "
                        f"(nearest point {near_dist / vd:.2f} x visibleDistance), sight line {sl}; via {route}",
                        mk("point", {"dir": di, "wall": wi, "rf": rf, "route": route}),
                    )
    # ---- B. small object targets wholly in the shadow of a large off-centre wall
    d_hat = M.direction(0.0, 0.0)
    dist = 0.6 * vd
    for shape, size, walls_used in (("Box", 0.05 * vd, None), ("Frame", 0.09 * vd, (1, 4))):
        dims_t = target_dims(shape, size)
        typr = (25, 15, -10)
        Rt = M.rot_deg(typr)
        centre = cam + R @ (dist * d_hat)
        sh = s.shapes[shape]
        target = s.Object._with(
            position=V(*centre), yaw=math.radians(typr[0]), pitch=math.radians(typr[1]), roll=math.radians(typr[2]),
            shape=sh, width=dims_t[0], length=dims_t[1], height=dims_t[2],
        )
        tverts = M.place_mesh(np.asarray(sh.mesh.vertices), dims_t, Rt, centre)
        rb = float(np.max(np.linalg.norm(tverts - centre, axis=1)))
        cls = M.classify_ball(cam, R, ang, vd, centre, rb, ANG_M, rad_m)
        inflated = M.inflate(tverts, centre, 1.2)
        for wi, (lab, k, c_l, F_l, dims) in enumerate(far_walls(vd, d_hat, dist - 1.2 * rb - 0.06 * vd, tier)):
            if walls_used is not None and wi not in walls_used:
                continue
            wb = world_box(c_l, F_l, dims)
            if wb is None:
                continue
            wall, mesh, wc, Rm = wb
            hidden = M.in_shadow_of(cam, list(inflated) + [centre], *mesh)
            if not hidden and cls != M.OUT:
                acc.inc("skipped_touching")
                continue
            centre_dist = float(np.linalg.norm(wc - cam))
            near_dist = M.point_box_distance(cam, wc, Rm, dims)
            acc.inc("far_object_cases")
            if centre_dist > 2 * vd and near_dist < vd:
                acc.inc("far_centre_gt_2vd_blocking")
            if centre_dist > vd and near_dist < vd:
                acc.inc("far_centre_gt_vd_blocking")
            routes = ["canSee"]
            if shape == "Box" and wi == 1:
                routes.append("can-see-operator")
            if shape == "Box" and wi == 4:
                routes.append("requirement-classes")
            for route in routes:
                obs = ask(route, target, [target, wall] if route != "canSee" else [wall])
                judge(
                    obs,
                    False,
                    f"object-visibility:fully-occluded-reported-visible:{kind}:{route}:large-off-centre-occluder",
                    f"viewer: {describe_viewer(spec)}\ntarget: {shape} {fmt(dims_t)} at {fmt(centre)} ({cls} the view volume); occluder: wall '{lab}' "
                    f"{fmt(dims)} centred at {fmt(wc)} = {centre_dist / vd:.2f} x visibleDistance from the camera (nearest point "
                    f"{near_dist / vd:.2f} x visibleDistance); every sight line to the target's inflated hull meets the wall; via {route}",
                    mk("object", {"shape": shape, "wall": wi, "route": route}),
                )
    # ---- C. long targets
    w = 0.04 * vd + 0.1
    longs = [("along-sight-line", (0.0, 1.7 * vd, 0.0), (w, 3.0 * vd, w)), ("along-sight-line", (0.0, 2.7 * vd, 0.0), (w, 5.0 * vd, w))]
    if kind != "Point" and h in (30, 90):
        longs.append(("beside-the-view-cone", (-1.2 * vd * math.sin(math.radians(h / 2)), 1.1 * vd, 0.0), (w, 2.8 * vd, w)))
    if kind != "Point" and v in (20, 90):
        # starts just ahead of the camera so that it does not wrap behind the viewer (which would make Scenic cast every ray)
        longs.append(("above-the-view-cone", (0.013 * vd, 1.25 * vd, 1.2 * vd * math.sin(math.radians(v / 2))), (w, 2.4 * vd, w)))
    for li, (lab, c_l, dims) in enumerate(longs):
        wb = world_box(c_l, np.eye(3), dims)
        if wb is None:
            continue
        tobj, mesh, tc, Rm = wb
        centre_dist = float(np.linalg.norm(tc - cam))
        near_dist = M.point_box_distance(cam, tc, Rm, dims)
        cover = [M.classify_ball(cam, R, ang, vd, c, r, ANG_M, rad_m) for c, r in M.box_cover_balls(tc, Rm, dims)]
        spacing = ray_spacing_deg(spec, centre_dist)
        inner_ok = False
        for c, r in M.box_inner_balls(tc, Rm, dims):
            dcb = float(np.linalg.norm(c - cam))
            if dcb > r and M.classify_ball(cam, R, ang, vd, c, r, ANG_M, rad_m) == M.IN:
                if 2 * math.degrees(math.asin(r / dcb)) >= 4.0 * spacing:
                    inner_ok = True
                    break
        if all(x == M.OUT for x in cover):
            exp = False
            if near_dist < vd:
                acc.inc("long_target_near_point_within_vd_but_outside")
        elif inner_ok:
            exp = True
            if centre_dist > vd:
                acc.inc("long_target_centre_beyond_vd_but_inside")
        else:
            acc.inc("skipped_touching")
            continue
        acc.inc("long_target_cases")
        for route in ("canSee", "can-see-operator" if li % 2 == 0 else "requirement-classes"):
            obs = ask(route, tobj, [tobj] if route != "canSee" else [])
            judge(
                obs,
                exp,
                ("object-visibility:near-part-inside-not-visible" if exp else "object-visibility:outside-view-volume-reported-visible")
                + f":{kind}:{route}:long-target",
                f"viewer: {describe_viewer(spec)}\ntarget: long box '{lab}' {fmt(dims)} centred at {fmt(tc)} = {centre_dist / vd:.2f} x visibleDistance "
                f"from the camera, nearest point {near_dist / vd:.2f} x visibleDistance; "
                + ("a ball inscribed in its near part lies inside the view volume by the margins" if exp else "every ball of a cover of the box lies outside the view volume by the margins")
                + f"; via {route}",
                mk("long", {"long": li, "route": route}),
            )
    # ---- D. compiled programs
    head = ["workspace = Workspace(BoxRegion(dimensions=(2000, 2000, 2000)))"]
    vl = f"v = new {kind} at {_vec(spec['pos'])}, with visibleDistance {_num(vd)}"
    if kind != "Point":
        vl += ", " + _orient([math.radians(a) for a in spec["ypr"]])
        vl += f", with viewAngles ({_num(math.radians(spec['ang'][0]))}, {_num(math.radians(spec['ang'][1]))})"
    if kind == "Object":
        vl += f", with cameraOffset {_vec(CAM_OFF)}, with width {VIEWER_DIMS[0]}, with length {VIEWER_DIMS[1]}, with height {VIEWER_DIMS[2]}, with allowCollisions True"
    head.append(vl)
    d_hat = M.direction(0.0, 0.0)
    p = cam + R @ (0.6 * vd * d_hat)
    size = 0.05 * vd
    rb = size * math.sqrt(3) / 2
    corners = np.array([[a, b, c] for a in (-1, 1) for b in (-1, 1) for c in (-1, 1)], float) * (size / 2) * 1.2 + p
    for wi, s_cross in ((1, 0.35 * vd), (4, 0.6 * vd - 1.2 * rb - 0.06 * vd)):
        lab, k, c_l, F_l, dims = far_walls(vd, d_hat, s_cross, tier)[wi]
        Rm = R @ F_l
        wy = ypr_of_matrix(Rm)
        if wy is None:
            continue
        wc = cam + R @ c_l
        mesh = M.box_mesh(dims, Rm, wc)
        for occluding in (True, False):
            wl = (
                f"wall = new Object at {_vec(wc)}, {_orient(wy)}, with width {_num(dims[0])}, with length {_num(dims[1])}, "
                f"with height {_num(dims[2])}, with allowCollisions True, with occluding {occluding}"
            )
            if wi == 1:
                cls = M.classify_point(cam, R, ang, vd, p, ANG_M, rad_m)
                sl = M.sightline(cam, p, [mesh]) if occluding else M.CLEAR
                if cls != M.IN or sl == M.GRAZING:
                    continue
                vis, form, lines = sl == M.CLEAR, "require-can-see-vector", [f"require v can see {_vec(p)}"]
            else:
                cls = M.classify_ball(cam, R, ang, vd, p, rb, ANG_M, rad_m)
                hidden = occluding and M.in_shadow_of(cam, list(corners) + [p], *mesh)
                if hidden:
                    vis = False
                elif cls == M.IN and not occluding:
                    vis = True
                else:
                    continue
                form = "visible-from-object"
                lines = [f"t = new Object at {_vec(p)}, with width {_num(size)}, with length {_num(size)}, with height {_num(size)}, with allowCollisions True, visible from v"]
            text = "\n".join(head + [wl] + lines) + "\n"
            res, msg = run_program(text)
            acc.inc("evaluations")
            acc.inc("far_programs")
            if res in ("error", "raised"):
                if res == "error":
                    raise HarnessError(f"C17 program does not compile: {msg}\n{text}")
                acc.violation(f"scenario:{form}:raises:{msg.split(':')[0]}:{kind}", f"raised {msg}\n{text}", mk("program", {"wall": wi, "occluding": occluding}))
                continue
            acc.flags.add(f"farprog|{'A' if vis else 'R'}")
            if (res == "accept") != vis:
                acc.violation(
                    f"scenario:{form}:{'accepted' if res == 'accept' else 'rejected'}-against-reference:{kind}:large-off-centre-occluder",
                    f"wall '{lab}' centred {np.linalg.norm(wc - cam) / vd:.2f} x visibleDistance from the camera, occluding={occluding}; reference: "
                    f"visible={vis}; expected scene generation to {'accept' if vis else 'reject'}, observed {res} {msg}\n{text}",
                    mk("program", {"wall": wi, "occluding": occluding}),
                )
    if not acc.samples:
        acc.samples.append({"viewer": describe_viewer(spec), "item": "large off-centre occluders and long targets", "counts": dict(acc.c)})
    return acc.out()


# ----------------------------------------------------------------------------------------
# work item 5: the case distinctions of the object branch of canSee
#   Thin rods (long boxes) between two directions of the viewer frame are enumerated and
#   CLASSIFIED: (a) by the reference model - every ball of a cover of the rod outside the view
#   volume => must not be visible; a ball inscribed in the rod inside the view volume, dense
#   rays, centre not visible => must be visible; (b) by a recomputation of the branch
#   predicates of the implementation (target ahead / crossing the rear axis / crossing both
#   axes / early rejections; which edges of the horizontal and vertical ray windows are
#   clipped).  (b) is used for coverage accounting only, never for the verdict.  For every
#   (branch, clipped window edge, verdict) one representative (three in thorough) is run.
# ----------------------------------------------------------------------------------------
BRANCH_RAYS = (1, None, False)
ROD_W_FRAC = 0.1  # rod thickness / visibleDistance


def rod_endpoints(ang):
    """Directions (az, alt, r/vd) used as rod end points."""
    h, v = eff_angles(ang)
    hh, hv = h / 2, v / 2
    azs = [0.0, 180.0, 90.0, -90.0, 160.0, -160.0, 125.0, -125.0]
    if h < 360:
        for sgn in (1, -1):
            azs += [_wrap_deg(sgn * (hh - 12)), _wrap_deg(sgn * (hh + 25))]
    alts = [0.0, 40.0, -40.0, 62.0, -62.0]
    if v < 180:
        for sgn in (1, -1):
            alts += [sgn * max(hv - 5, 2), sgn * min(hv + 22, 70)]
    azs = sorted(set(azs), key=lambda a: (abs(a), a))
    alts = sorted(set(alts), key=lambda a: (abs(a), a))
    return [(az, alt, r) for r in (0.5, 1.3, 2.0) for az in azs for alt in alts]


def mesh_edges(faces):
    e = np.vstack([faces[:, [0, 1]], faces[:, [1, 2]], faces[:, [2, 0]]])
    return np.unique(np.sort(e, axis=1), axis=0)


def branch_label(local_verts, faces, ang, vd, near_dist, centre_visible):
    """Recomputation of the case distinctions of visibility.canSee for an Object target, from the
    target's vertices in the viewer frame.  Returns (branch, set of component flags)."""
    hh, hv = ang[0] / 2, ang[1] / 2
    if centre_visible:
        return "centre-shortcut", set()
    if near_dist > vd:
        return "distance-reject", {"distance-reject"}
    v = np.asarray(local_verts, float)
    e = faces if faces.shape[1] == 2 else mesh_edges(faces)  # an (E, 2) array is taken as the edge list itself
    a, b = v[e[:, 0]], v[e[:, 1]]
    with np.errstate(divide="ignore", invalid="ignore"):
        cross = (a[:, 0] / b[:, 0]) < 0
    a, b = a[cross], b[cross]
    t = -a[:, 0] / (b[:, 0] - a[:, 0])
    yint = a[:, 1] + t * (b[:, 1] - a[:, 1])
    ahead, behind = bool(np.any(yint >= 0)), bool(np.any(yint <= 0))
    az = np.arctan2(v[:, 1], v[:, 0]) - math.pi / 2
    az = np.mod(az + math.pi, 2 * math.pi) - math.pi
    alt = np.arcsin(np.clip(v[:, 2] / np.linalg.norm(v, axis=1), -1, 1))
    if alt.min() > hv:
        return "vertical-reject", {"vertical-reject:above"}
    if alt.max() < -hv:
        return "vertical-reject", {"vertical-reject:below"}
    vflags = set()
    if alt.max() > hv:
        vflags.add("U")
    if alt.min() < -hv:
        vflags.add("D")
    if ahead and behind:
        return "both-axes", {"both-axes"}
    if behind:
        back = np.where(az >= 0, az - math.pi, az + math.pi)
        flags = set()
        if hh + abs(back.max()) > math.pi:
            flags.add("behind:R-window")
        if hh + abs(back.min()) > math.pi:
            flags.add("behind:L-window")
        if not flags:
            return "behind", {"behind:no-window"}
        return "behind", flags | {"behind:" + f for f in vflags}
    if az.max() < -hh:
        return "front", {"front:horizontal-reject:right"}
    if az.min() > hh:
        return "front", {"front:horizontal-reject:left"}
    flags = {"front:" + f for f in vflags}
    if az.min() < -hh:
        flags.add("front:R")
    if az.max() > hh:
        flags.add("front:L")
    return "front", flags or {"front:inside"}


REQUIRED_BRANCH_FLAGS = [
    ("distance-reject", "N"),
    ("vertical-reject:above", "N"),
    ("vertical-reject:below", "N"),
    ("both-axes", "N"),
    ("both-axes", "V"),
    ("behind:no-window", "N"),
    ("front:horizontal-reject:left", "N"),
    ("front:horizontal-reject:right", "N"),
] + [(f"{b}:{e}", vd) for b in ("front", "behind") for e in ("U", "D") for vd in "NV"] + [
    (f"front:{e}", vd) for e in ("L", "R") for vd in "NV"
] + [(f"behind:{e}-window", vd) for e in ("L", "R") for vd in "NV"] + [
    (f"front:{e}:part-beyond-edge-in-reach", "N") for e in "UDLR"
] + [(f"behind:{e}:part-beyond-edge-in-reach", "N") for e in "UDH"] + [(f"both-axes:{e}:part-beyond-edge-in-reach", "N") for e in "VH"]


def classify_rod(cam_l, ang, vd, A, B, spacing):
    """Rod from A to B (viewer frame, metres): (verdict, centre, frame, dims, inner ball)."""
    w = ROD_W_FRAC * vd
    axis = B - A
    L = float(np.linalg.norm(axis))
    if L < 4 * w:
        return None
    centre = (A + B) / 2
    dims = (L, w, w)

    def F():
        helper = np.array([0.0, 0.0, 1.0]) if abs(axis[2]) / L < 0.9 else np.array([1.0, 0.0, 0.0])
        return M.frame_from_axes(axis, M._cross(helper, axis))

    rad_m = RAD_M_FRAC * vd
    u = axis / L
    n = int(math.ceil(L / w))
    piece = L / n
    cc = A[None, :] + ((np.arange(n) + 0.5) * piece)[:, None] * u[None, :]
    _, out = M.classify_balls(ang, vd, cc, 0.5 * math.sqrt(piece**2 + 2 * w * w), ANG_M, rad_m)
    r_in = 0.5 * w * 0.85
    ni = max(1, int(L / w))
    ci = A[None, :] + (0.5 * w + np.arange(ni) * (L - w) / max(ni - 1, 1))[:, None] * u[None, :]
    if out.all():
        # which window edges have a part of the rod just beyond them that an erroneously widened ray
        # window would hit: beyond that edge, but inside the other window and within visibleDistance
        hb, hh, vb, hv = M.norm_angles(ang)
        dd = np.linalg.norm(ci, axis=1)
        az = np.arctan2(-ci[:, 0], ci[:, 1])
        al = np.arcsin(np.clip(ci[:, 2] / dd, -1, 1))
        near = dd < vd - rad_m
        in_h = (np.abs(az) < hh - ANG_M) if hb else np.ones(len(ci), bool)
        in_v = (np.abs(al) < hv - ANG_M) if vb else np.ones(len(ci), bool)
        reach = set()
        if vb and (near & in_h & (al > hv + ANG_M)).any():
            reach.add("U")
        if vb and (near & in_h & (al < -hv - ANG_M)).any():
            reach.add("D")
        if hb and (near & in_v & (az > hh + ANG_M)).any():
            reach.add("L")
        if hb and (near & in_v & (az < -hh - ANG_M)).any():
            reach.add("R")
        return "N", centre, F(), dims, reach
    inside, _ = M.classify_balls(ang, vd, ci, r_in, ANG_M, rad_m)
    dd = np.linalg.norm(ci, axis=1)
    with np.errstate(invalid="ignore"):
        good = inside & (dd > r_in) & (2 * np.degrees(np.arcsin(np.minimum(1.0, r_in / dd))) >= 4 * spacing)
    if good.any():
        k = int(np.argmax(good))
        return "V", centre, F(), dims, (ci[k], r_in)
    return None


def eval_branch(payload):
    s = S()
    acc = Acc()
    spec, tier = payload["spec"], payload["tier"]
    per_flag = 1 if tier == "quick" else 3
    V = s.Vector
    cam, R, ang, vd = model_of(spec)
    kind = spec["kind"]
    viewer = build_viewer(spec)
    vobj = [viewer] if kind == "Object" else []
    rad_m = RAD_M_FRAC * vd
    spacing = ray_spacing_deg(spec, vd)
    zero = np.zeros(3)
    pts = rod_endpoints(spec["ang"] if kind != "Point" else (360, 180))
    loc = [r * vd * M.direction(math.radians(az), math.radians(alt)) for az, alt, r in pts]
    have = {}
    n_run = 0
    box_faces = mesh_edges(M.box_mesh((1, 1, 1), np.eye(3), zero)[1])  # edge list of the box triangulation
    need = {x for x in REQUIRED_BRANCH_FLAGS}
    done = False
    for i in range(len(pts)):
        if pts[i][2] != 0.5 and pts[i] != (0.0, 0.0, 1.3):
            continue  # one end of every rod is near the camera (plus rods starting straight ahead beyond visibleDistance)
        if done:
            break
        for j in range(len(pts)):
            if j == i or (pts[j][2] == 0.5 and j < i):
                continue
            if all(have.get(x, 0) >= per_flag for x in need):
                done = True
                break
            got = classify_rod(zero, ang, vd, loc[i], loc[j], spacing)
            acc.inc("branch_rods_classified")
            if got is None:
                continue
            verdict, c_l, F, dims, ball = got
            verts_l, _ = M.box_mesh(dims, F, c_l)
            near = M.point_box_distance(zero, c_l, F, dims)
            centre_vis = M.classify_point(zero, np.eye(3), ang, vd, c_l, 0.0, 0.0) == M.IN
            if verdict == "V" and M.classify_point(zero, np.eye(3), ang, vd, c_l, ANG_M, rad_m) != M.OUT:
                continue  # the window logic is only reached when the centre is not visible
            branch, flags = branch_label(verts_l, box_faces, ang, vd, near, centre_vis)
            if verdict == "N" and branch == "both-axes":
                for e_ in ball or ():
                    flags.add("both-axes:" + ("V" if e_ in "UD" else "H") + ":part-beyond-edge-in-reach")
            if verdict == "N" and branch in ("front", "behind"):
                for e_ in ball or ():
                    if branch == "front" and f"front:{e_}" in flags:
                        flags.add(f"front:{e_}:part-beyond-edge-in-reach")
                    if branch == "behind" and e_ in "UD" and f"behind:{e_}" in flags:
                        flags.add(f"behind:{e_}:part-beyond-edge-in-reach")
                    if branch == "behind" and e_ in "LR" and "behind:no-window" not in flags:
                        flags.add("behind:H:part-beyond-edge-in-reach")
            fresh = [f for f in flags if have.get((f, verdict), 0) < per_flag]
            if not fresh:
                continue
            Rm = R @ F
            centre = cam + R @ c_l
            rod = build_box(centre, Rm, dims)
            if rod is None:
                acc.inc("skipped_gimbal")
                continue
            if n_run == 0:
                check_placement(rod, M.box_mesh(dims, Rm, centre)[0], "a rod target")
            n_run += 1
            for f in flags:
                have[(f, verdict)] = have.get((f, verdict), 0) + 1
                acc.flags.add(f"br|{f}|{verdict}")
                acc.inc(f"branch|{f}|{verdict}")
            acc.inc("branch_cases")
            exp = verdict == "V"
            label = "+".join(sorted(flags))
            clipped = "".join(sorted(f.split(":")[1] for f in flags if f.count(":") == 1 and f.split(":")[1] in ("U", "D", "L", "R")))
            sig_label = branch + (":" + clipped if clipped else "")
            desc = (
                f"viewer: {describe_viewer(spec)}\ntarget: rod {fmt(dims)} from direction (az, alt, r/vd) {pts[i]} to {pts[j]} of the viewer frame, "
                f"centre {fmt(centre)}, nearest point {near / vd:.2f} x visibleDistance; implementation branch (recomputed): {branch} [{label}]; "
                + ("a ball inscribed in the rod lies inside the view volume by the margins, the rod's centre is outside it" if exp else "every ball of a cover of the rod lies outside the view volume by the margins")
            )
            case = {"type": "branch", "spec": spec, "tier": tier, "i": i, "j": j, "route": "canSee"}
            routes = ["canSee"] + (["can-see-operator"] if n_run % 2 else [])
            for route in routes:
                if route == "canSee":
                    obs = guarded(lambda: bool(viewer.canSee(rod)))
                else:
                    obs = guarded(lambda: op_can_see(viewer, rod, vobj + [rod]))
                acc.inc("evaluations")
                cc = dict(case, route=route)
                if isinstance(obs, Raised):
                    acc.violation(f"visibility-query-raises:{obs.name}:{kind}:branch:{branch}", desc + f"\nraised {obs.text}", cc)
                elif obs != exp:
                    acc.violation(
                        ("object-visibility:part-inside-not-visible" if exp else "object-visibility:outside-view-volume-reported-visible")
                        + f":{kind}:{route}:branch:{sig_label}",
                        desc + f"\nexpected visible={exp}, observed {obs} via {route}",
                        cc,
                    )
            # the part inside the view volume fully hidden by a wall, the rest outside: not visible
            if exp:
                bc, br = ball
                u = bc / np.linalg.norm(bc)
                Fw = M.frame_from_axes(np.cross(u, [0.3, 0.5, 0.8]), u)
                wdims = (1.6 * vd, 0.1 + 0.01 * vd, 1.6 * vd)
                wc_l = 0.6 * float(np.linalg.norm(bc)) * u + 0.03 * vd * Fw[:, 0]
                wmesh_l = M.box_mesh(wdims, Fw, wc_l)
                ok = True
                for c, r in M.box_cover_balls(c_l, F, dims):
                    if M.classify_ball(zero, np.eye(3), ang, vd, c, r, ANG_M, rad_m) == M.OUT:
                        continue
                    cube = np.array([[a, b, d] for a in (-1, 1) for b in (-1, 1) for d in (-1, 1)], float) * r * 1.2 + c
                    if not M.in_shadow_of(zero, cube, *wmesh_l):
                        ok = False
                        break
                wall = build_box(cam + R @ wc_l, R @ Fw, wdims) if ok else None
                if wall is None:
                    acc.inc("branch_hidden_unjudged")
                else:
                    obs = guarded(lambda: bool(viewer.canSee(rod, occludingObjects=(wall,))))
                    acc.inc("evaluations")
                    acc.inc("branch_hidden_cases")
                    for f in flags:
                        acc.flags.add(f"br|{f}|H")
                    cc = dict(case, route="canSee-hidden")
                    if isinstance(obs, Raised):
                        acc.violation(f"visibility-query-raises:{obs.name}:{kind}:branch:{branch}", desc + f"\nraised {obs.text}", cc)
                    elif obs:
                        acc.violation(
                            f"object-visibility:fully-occluded-reported-visible:{kind}:canSee:branch:{sig_label}",
                            desc + "\nwith a wall hiding every cover ball that is not outside the view volume: expected visible=False, observed True",
                            cc,
                        )
    hdeg, vdeg = (360, 180) if kind == "Point" else eff_angles(spec["ang"])
    if hdeg > 180 and vdeg < 180:
        for f in ("behind:U", "behind:D", "behind:U:part-beyond-edge-in-reach", "behind:D:part-beyond-edge-in-reach"):
            for vd_ in "NV" if f.count(":") == 1 else "N":
                if (f, vd_) not in have:
                    raise HarnessError(f"vacuous: no rod for {f}|{vd_} with viewAngles {spec['ang']}")
    if not acc.samples:
        acc.samples.append({"viewer": describe_viewer(spec), "item": "rods per branch of the object case distinctions", "reached": sorted(f"{k[0]}|{k[1]}" for k in have)})
    return acc.out()


# ----------------------------------------------------------------------------------------
# plan / run
# ----------------------------------------------------------------------------------------
def dispatch(item):
    import time

    kind, payload = item
    t0 = time.process_time()
    if kind == "points":
        r = eval_points(payload)
    elif kind == "object":
        r = eval_object(payload)
    elif kind == "far":
        r = eval_far(payload)
    elif kind == "branch":
        r = eval_branch(payload)
    else:
        r = eval_programs(payload)
    r["cpu"] = time.process_time() - t0
    return r


def rays_for(shape):
    """Ray settings enumerated for a target shape.  The full alphabet is applied to the Box
    (centre shortcut) and the Frame (pure ray casting); the other shapes use density 2 (the
    cost of a fully occluded check grows with density squared x mesh size)."""
    if shape in ("Box", "Frame"):
        return RAYS_ALPHABET
    return [RAYS_CHEAP]


def object_items(kinds_poses_angles, vds, sizes_of, typrs, full_rays=True):
    items = []
    for kind, mode, pos, r, ang in kinds_poses_angles:
        eang = ang if kind != "Point" else (360, 180)
        for vd in vds:
            for shape in SHAPES:
                for size in sizes_of(eang):
                    for typr in typrs:
                        for rays in rays_for(shape) if full_rays else [RAYS_CHEAP]:
                            spec = viewer_spec(kind, mode, pos, r, ang, vd, rays)
                            for place in placements(eang, vd):
                                if rays not in (RAYS_DEFAULT, RAYS_CHEAP) and place[0] not in ("ahead", "elevated", "straddle-h", "high"):
                                    continue
                                if shape in ("Box", "Frame") and rays == RAYS_CHEAP and place[0] not in ("ahead", "elevated", "straddle-h", "high"):
                                    continue
                                items.append(("object", object_case(spec, shape, size, typr, place)))
    return items


def kpa(poses, angles):
    """viewer kind x pose x angle set (a Point viewer has neither orientation nor angles)."""
    out = []
    for kind in KINDS:
        if kind == "Point":
            seen = []
            for mode, pos, r in poses:
                k = (mode, pos)
                if k not in seen:
                    seen.append(k)
                    out.append((kind, mode, pos, (0, 0, 0), (360, 180)))
        else:
            for mode, pos, r in poses:
                for ang in angles:
                    out.append((kind, mode, pos, r, ang))
    return out


def plan(tier):
    items = []
    quick = tier == "quick"
    rots = ROTS_QUICK if quick else ROTS_THOROUGH
    rots0 = ROTS_ORIGIN_QUICK if quick else ROTS_THOROUGH
    positions = POSITIONS_QUICK if quick else POSITIONS_THOROUGH
    vds = (10.0,) if quick else (10.0, 3.0, 40.0)
    angle_sets = angle_sets_for(tier)

    poses = [("off", pos, r) for pos in positions for r in rots] + [("cam0", None, r) for r in rots0]
    # --- point targets
    if quick:
        # all 12 angle sets on five poses, four angle sets on the other nine
        main = [("off", positions[0], r) for r in ((0, 0, 0), (90, 0, 0), (40, 30, 45), (-135, -60, 120))] + [("cam0", None, (40, 30, 45))]
        rest = [p for p in poses if p not in main]
        pl = kpa(main, angle_sets) + [x for x in kpa(rest, ANGLES_OBJ_QUICK) if x[0] != "Point"]
    else:
        pl = kpa(poses, angle_sets)
    for kind, mode, pos, r, ang in pl:
        for vd in vds:
            if vd != vds[0] and not (mode == "off" and pos == positions[0]):
                continue  # the other visible distances on the first position only
            items.append(("points", viewer_spec(kind, mode, pos, r, ang, vd)))
    if quick:
        for kind, mode, pos, r, ang in kpa([("off", positions[0], (40, 30, 45))], [(90, 90), (200, 20)]):
            for vd in (3.0, 40.0):
                items.append(("points", viewer_spec(kind, mode, pos, r, ang, vd)))
    # --- object targets
    narrow = lambda ang: min(ang) <= 30
    if quick:
        oposes = [("off", positions[0], (0, 0, 0)), ("cam0", None, (40, 30, 45)), ("off", positions[0], (-135, -60, 120))]
        items += object_items(kpa(oposes, ANGLES_OBJ_QUICK), (10.0,), lambda a: (0.45,) if narrow(a) else (0.7,), ((25, 15, -10),))
    else:
        oposes = (
            [("off", positions[0], r) for r in ROTS_QUICK if r not in ((-135, 0, 0), (40, 0, 45))]
            + [("off", positions[1], (40, 30, 45)), ("off", positions[2], (0, -60, 120))]
            + [("cam0", None, r) for r in ((40, 30, 45), (-135, -60, 120))]
        )
        items += object_items(kpa(oposes, ANGLES_ALL), (10.0,), lambda a: (0.45,) if narrow(a) else (0.7,), ((25, 15, -10),))
        # second size / target orientation / distance on a sub-lattice of poses and angles
        sub = kpa([("off", positions[0], (40, 30, 45)), ("cam0", None, (-135, -60, 120)), ("off", positions[1], (0, 0, 0))], ANGLES_OBJ_QUICK + [(400, 200)])
        items += object_items(sub, (10.0,), lambda a: (1.0,), ((25, 15, -10), (0, 0, 0)), full_rays=False)
        items += object_items(sub, (25.0,), lambda a: (0.45, 1.5), ((0, 0, 0),), full_rays=False)
    # --- programs
    if quick:
        pv = [
            ("Point", "off", positions[0], (0, 0, 0), (360, 180)),
            ("OrientedPoint", "off", positions[0], (40, 30, 45), (90, 90)),
            ("OrientedPoint", "cam0", None, (-135, -60, 120), (360, 20)),
            ("Object", "cam0", None, (40, 30, 45), (200, 180)),
            ("Object", "off", positions[0], (0, 0, 0), (90, 90)),
            ("Object", "off", positions[0], (90, 0, 0), (30, 20)),
        ]
    else:
        pposes = [("off", positions[0], r) for r in ROTS_QUICK] + [("cam0", None, r) for r in ROTS_ORIGIN_QUICK]
        pv = kpa(pposes, [(30, 20), (90, 90), (200, 180), (360, 20), (90, 180), (400, 200)])
    for kind, mode, pos, r, ang in pv:
        for part in range(PROGRAM_PARTS):
            items.append(("programs", {"spec": viewer_spec(kind, mode, pos, r, ang, 10.0), "part": part}))
    # --- large off-centre occluders, long targets (small visible distances)
    if quick:
        fposes = [("off", positions[0], (0, 0, 0)), ("off", positions[0], (40, 30, 45)), ("cam0", None, (-135, -60, 120))]
        fl = [(x, 3.0) for x in kpa(fposes, [(90, 90), (360, 180)])] + [(x, 10.0) for x in kpa(fposes[:1], [(30, 20), (200, 90)])]
    else:
        fposes = [("off", positions[0], r) for r in ROTS_QUICK] + [("off", positions[1], (40, 30, 45))] + [("cam0", None, r) for r in ROTS_ORIGIN_QUICK]
        fl = [(x, vd) for x in kpa(fposes, ANGLES_OBJ_QUICK + [(90, 20), (360, 180)]) for vd in (3.0, 10.0)]
    for (kind, mode, pos, r, ang), vd in fl:
        items.append(("far", {"spec": viewer_spec(kind, mode, pos, r, ang, vd), "tier": tier}))
    # --- case distinctions of the object branch (rods), rotated viewers away from the origin
    ra, rb = (40, 30, 45), (-135, -60, 120)
    if quick:
        bl = [
            ("Object", "off", positions[0], ra, (200, 20), 10.0),
            ("OrientedPoint", "off", positions[0], rb, (200, 90), 10.0),
            ("OrientedPoint", "off", positions[0], ra, (360, 20), 3.0),
            ("Object", "off", positions[0], rb, (360, 90), 10.0),
            ("Object", "off", positions[0], ra, (90, 90), 10.0),
            ("OrientedPoint", "off", positions[0], rb, (30, 20), 10.0),
            ("OrientedPoint", "off", positions[0], (0, 0, 0), (30, 90), 3.0),
            ("Point", "off", positions[0], (0, 0, 0), (360, 180), 10.0),
        ]
    else:
        bposes = [("off", positions[0], ra), ("off", positions[1], rb), ("cam0", None, (0, -60, 120))]
        bl = [(k, m, p_, r_, a, 3.0 if r_ == rb else 10.0) for (k, m, p_, r_, a) in kpa(bposes, ANGLES_ALL)]
    for kind, mode, pos, r, ang, vd in bl:
        items.append(("branch", {"spec": viewer_spec(kind, mode, pos, r, ang, vd, BRANCH_RAYS), "tier": tier}))
    return items


def selftest():
    """The reference model's own sanity (independent of Scenic)."""
    R = M.rot_deg((90, 0, 0))
    if not np.allclose(R @ np.array([0, 1, 0]), [-1, 0, 0], atol=1e-12):
        raise HarnessError("model: yaw 90 deg must turn +Y into -X (counter-clockwise)")
    R = M.rot_deg((0, 90, 0))
    if not np.allclose(R @ np.array([0, 1, 0]), [0, 0, 1], atol=1e-12):
        raise HarnessError("model: pitch 90 deg must turn +Y into +Z")
    R = M.rot_deg((0, 0, 90))
    if not np.allclose(R @ np.array([1, 0, 0]), [0, 0, -1], atol=1e-12):
        raise HarnessError("model: roll 90 deg must turn +X into -Z")
    d, az, alt = M.sph(np.array([-1.0, 1.0, 0.0]))
    if abs(math.degrees(az) - 45) > 1e-9:
        raise HarnessError("model: azimuth is positive towards -X")
    v, f = M.box_mesh((2, 2, 2), np.eye(3), (0, 5, 0))
    if M.segment_hits((0, 0, 0), (0, 10, 0), v, f) is None or M.segment_hits((0, 0, 0), (0, 3.9, 0), v, f) is not None:
        raise HarnessError("model: segment/box intersection")
    if abs(M.segment_hits((0, 0, 0), (0, 10, 0), v, f) - 0.4) > 1e-9:
        raise HarnessError("model: segment/box first hit parameter")
    if M.segment_hits((3, 0, 0), (3, 10, 0), v, f) is not None:
        raise HarnessError("model: segment beside the box")
    grid = np.array([r * M.direction(math.radians(a), math.radians(b)) for r in (3.0, 9.0, 10.4, 12.0) for a in range(-180, 180, 15) for b in (-80, -40, -9, 0, 11, 46, 75)])
    for angd in ((200, 20), (90, 90), (360, 90), (30, 180), (360, 180)):
        angr = (math.radians(angd[0]), math.radians(angd[1]))
        for rad in (0.3, 1.2):
            vin, vout = M.classify_balls(angr, 10.0, grid, rad, ANG_M, 0.5)
            for k, c in enumerate(grid):
                one = M.classify_ball(np.zeros(3), np.eye(3), angr, 10.0, c, rad, ANG_M, 0.5)
                if (one == M.IN) != bool(vin[k]) or (one == M.OUT) != bool(vout[k]):
                    raise HarnessError("model: vectorised ball classifier disagrees with the scalar one")
    for ypr in ROTS_THOROUGH:
        back = ypr_of_matrix(M.rot_deg(ypr))
        if back is not None and not np.allclose(M.rot(*back), M.rot_deg(ypr), atol=1e-9):
            raise HarnessError("model: Euler decomposition")


def run(ctx):
    selftest()
    S()
    import gc

    # warm-up in the parent: lazy initialisations (mesh engines, pruning, requirement code) happen
    # once here instead of once per forked worker
    w = viewer_spec("Object", "off", (3.0, 4.0, 1.0), (10, 5, 0), (90, 90), 10.0, RAYS_CHEAP)
    eval_object(object_case(w, "Frame", 0.7, (0, 0, 0), ("ahead", 0.0, 0.0, 6.0)))
    eval_programs({"spec": w, "part": 1})
    gc.collect()
    gc.freeze()  # performance only: keeps the forked workers from copying the parent's heap page by page
    items = ctx.rotate(plan(ctx.tier))
    items.sort(key=lambda it: {"programs": 0, "branch": 1, "far": 2, "object": 3, "points": 4}[it[0]])  # stable: long items first
    tot = {}
    nsig = {}
    flags = set()
    samples = []
    n_items = {"points": 0, "object": 0, "programs": 0, "far": 0, "branch": 0}
    shown = {}
    cpu = {}
    for (ikind, _), r in zip(items, ctx.pmap(dispatch, items, chunksize=2)):
        n_items[ikind] += 1
        cpu[ikind] = cpu.get(ikind, 0.0) + r["cpu"]
        for k, v in r["c"].items():
            tot[k] = tot.get(k, 0) + v
        for k, v in r["nsig"].items():
            nsig[k] = nsig.get(k, 0) + v
        flags.update(r["flags"])
        for sig, desc, case in r["viol"]:
            n = shown.get(sig, 0)
            shown[sig] = n + 1
            if n < 40:
                ctx.violation(sig, desc, case)
        if r["samples"] and len(samples) < 6 and (len(samples) < 2 or ikind != "points" or n_items["points"] % 97 == 0):
            samples.append(r["samples"][0])

    # ---- vacuity guards
    missing = []
    quick = ctx.tier == "quick"
    angle_sets = [f"{h}x{v}" for h, v in ANGLES_ALL] + ([] if quick else ["400x200"])
    for kind in KINDS:
        for a in ["-"] if kind == "Point" else angle_sets:
            for verdict in "TF":
                if f"{kind}|{a}|{verdict}" not in flags:
                    missing.append(f"points:{kind}|{a}|{verdict}")
    obj_angles = ANGLES_OBJ_QUICK if quick else ANGLES_ALL
    for kind in KINDS:
        for a in ["-"] if kind == "Point" else [f"{h}x{v}" for h, v in obj_angles]:
            for verdict in "TF":
                if f"obj|{kind}|{a}|{verdict}" not in flags:
                    missing.append(f"objects:{kind}|{a}|{verdict}")
    if missing:
        raise HarnessError(f"vacuous: verdicts never judged for {missing[:8]} ({len(missing)} missing)")
    for k in ("occlusion_flips", "rotated_off_origin_cases", "monotonicity_pairs", "nontrivial_orientation", "object_occluder_behind_cases", "programs", "point_occluder_cases", "occluders_present_but_clear"):
        if tot.get(k, 0) <= 0:
            raise HarnessError(f"vacuous: counter {k} is 0")
    for k in (
        "far_point_cases",
        "far_object_cases",
        "far_centre_gt_vd_blocking",
        "far_centre_gt_2vd_blocking",
        "long_target_centre_beyond_vd_but_inside",
        "long_target_near_point_within_vd_but_outside",
        "far_programs",
    ):
        if tot.get(k, 0) <= 0:
            raise HarnessError(f"vacuous: counter {k} is 0")
    missing_br = [f"{f}|{vd_}" for f, vd_ in REQUIRED_BRANCH_FLAGS if f"br|{f}|{vd_}" not in flags]
    if missing_br:
        raise HarnessError(f"vacuous: no judged rod for the branch / window edge / verdict {missing_br}")
    if tot.get("branch_hidden_cases", 0) <= 0:
        raise HarnessError("vacuous: no rod whose in-volume part is hidden by a wall")
    for f in ("far|T", "far|F", "farprog|A", "farprog|R"):
        if f not in flags:
            raise HarnessError(f"vacuous: {f} never judged")
    progflags = sorted(f for f in flags if f.startswith("prog|"))
    forms = {f.split("|")[1] for f in progflags}
    for form in forms:
        if f"prog|{form}|A" not in flags or f"prog|{form}|R" not in flags:
            raise HarnessError(f"vacuous: program form {form} never expected to be both accepted and rejected")

    judged = (
        tot.get("point_cases", 0)
        + tot.get("point_occluder_cases", 0)
        + tot.get("object_judgements", 0)
        + tot.get("programs", 0)
        + tot.get("far_point_cases", 0)
        + tot.get("far_object_cases", 0)
        + tot.get("long_target_cases", 0)
        + tot.get("far_programs", 0)
        + tot.get("branch_cases", 0)
        + tot.get("branch_hidden_cases", 0)
    )
    nontrivial = tot.get("nontrivial_orientation", 0) + tot.get("occlusion_flips", 0)
    ctx.cov.update(
        evaluations=tot.get("evaluations", 0),
        distinct_nontrivial=nontrivial,
        rule="full product of viewer kind x pose (camera off the origin / at the origin x yaw-pitch-roll alphabet) x viewAngles x "
        "visibleDistance x [point lattice: azimuth alphabet (0, 180, +-90, 45, -135, each bound +-3 deg) x altitude alphabet (0, +-60, +-85, "
        "each bound +-3 deg) at 0.6 visibleDistance, plus radii 0.2/0.9/1.1/1.5 on five directions; x all 8 subsets of 3 box occluders for "
        "the directions near an occluder] + [object targets: 5 shapes x placements (ahead, behind, elevated, beyond, straddling "
        "distance/azimuth/altitude bound, outside each bound) x ray settings x all 8 subsets of (wall in front, wall behind, partial slab)] "
        "+ [compiled all-constant programs per viewer] + [cheap-vs-exact geometry: walls 5-8 visibleDistances long whose centre is 1.5 / 2.8 "
        "visibleDistances from the camera (sideways, opposite, above, below, behind-and-wrapping) crossing the sight line at 0.35 visibleDistance, "
        "for point targets in front / behind and small object targets in their shadow; long box targets with centre beyond visibleDistance "
        "and near end inside, or nearest point within visibleDistance but wholly outside the view cone] + [object-branch case distinctions: all rods "
        "between two directions of an end-point alphabet (azimuths 0, 180, +-90, +-125, +-160, each horizontal bound -12/+25 deg; altitudes 0, +-40, "
        "+-62, each vertical bound -5/+22 deg; radii 0.5, 1.3, 2.0 visibleDistance) are classified by the reference model (all cover balls outside "
        "=> not visible; inscribed ball inside, centre outside, dense rays => visible) and by the recomputed branch predicate of canSee; one "
        "(thorough: three) rod per (branch, clipped window edge, verdict) is run, plus a variant with the in-volume part hidden by a wall]. A case is judged only when every bound is cleared by 2 deg / 5% of the distance "
        "and no sight line grazes an occluder. Non-trivial = judged point whose verdict changes if the viewer's orientation is ignored, "
        "or a target whose verdict is flipped by an occluder subset.",
        samples=samples,
        judged_cases=judged,
        viewer_configs_points=n_items["points"],
        object_cases=tot.get("object_cases", 0),
        object_judgements=tot.get("object_judgements", 0),
        object_unjudged_subsets=tot.get("object_unjudged_subsets", 0),
        object_class_in=tot.get("object_class_in", 0),
        object_class_out=tot.get("object_class_out", 0),
        object_class_edge=tot.get("object_class_edge", 0),
        object_occluder_behind_cases=tot.get("object_occluder_behind_cases", 0),
        point_cases=tot.get("point_cases", 0),
        point_occluder_cases=tot.get("point_occluder_cases", 0),
        occluders_present_but_clear=tot.get("occluders_present_but_clear", 0),
        programs=tot.get("programs", 0),
        program_forms=sorted(forms),
        monotonicity_pairs=tot.get("monotonicity_pairs", 0),
        occlusion_flips=tot.get("occlusion_flips", 0),
        rotated_off_origin_cases=tot.get("rotated_off_origin_cases", 0),
        nontrivial_orientation=tot.get("nontrivial_orientation", 0),
        cheap_vs_exact={
            "viewer_configs": n_items["far"],
            "point_cases_with_large_off_centre_occluder": tot.get("far_point_cases", 0),
            "object_cases_hidden_by_large_off_centre_occluder": tot.get("far_object_cases", 0),
            "blocking_occluder_centre_beyond_visibleDistance_nearest_point_within": tot.get("far_centre_gt_vd_blocking", 0),
            "blocking_occluder_centre_beyond_2x_visibleDistance_nearest_point_within": tot.get("far_centre_gt_2vd_blocking", 0),
            "long_target_cases": tot.get("long_target_cases", 0),
            "long_target_centre_beyond_visibleDistance_but_near_part_inside": tot.get("long_target_centre_beyond_vd_but_inside", 0),
            "long_target_nearest_point_within_visibleDistance_but_wholly_outside": tot.get("long_target_near_point_within_vd_but_outside", 0),
            "programs": tot.get("far_programs", 0),
        },
        object_branch_cases={
            "viewer_configs": n_items["branch"],
            "rods_classified": tot.get("branch_rods_classified", 0),
            "rods_run": tot.get("branch_cases", 0),
            "in_volume_part_hidden_by_wall": tot.get("branch_hidden_cases", 0),
            "per_branch_edge_verdict(N=not visible expected, V=visible expected)": {
                k[len("branch|") :]: v for k, v in sorted(tot.items()) if k.startswith("branch|")
            },
        },
        skipped_touching=tot.get("skipped_touching", 0),
        skipped_grazing=tot.get("skipped_grazing", 0),
        skipped_gimbal=tot.get("skipped_gimbal", 0),
        unspecified_sparse_rays=tot.get("unspecified_sparse_rays", 0),
        violating_cases=tot.get("violating_cases", 0),
        cpu_seconds_by_item_type={k: round(v, 1) for k, v in cpu.items()},
        violating_cases_by_signature=dict(sorted(nsig.items())),
        bounds={
            "tier": ctx.tier,
            "angular_margin_deg": 2.0,
            "radial_margin": "5% of visibleDistance",
            "view_angles_deg": [list(a) for a in angle_sets_for(ctx.tier)],
            "rotations_deg": [list(r) for r in (ROTS_QUICK if quick else ROTS_THOROUGH)],
            "ray_settings(density,count,distanceScaling)": [list(map(str, r)) for r in RAYS_ALPHABET],
        },
    )
    ctx.assumptions += [
        "conventions taken from the documentation: heading 0 = +Y, counter-clockwise positive, intrinsic yaw-pitch-roll (Z-X-Y); "
        "viewAngles are full angles centred on the forward axis, truncated to (360, 180) deg; camera = position + R.cameraOffset",
        "a Point viewer sees the full sphere of radius visibleDistance (docs: visible region of a Point is a sphere)",
        "documented false negatives of the finite ray lattice are not judged: 'inside and unoccluded => visible' is only asserted "
        "when the target's inscribed ball spans >= 4 ray spacings (else counted as unspecified_sparse_rays)",
        "visible regions are meshes (documented as inexact): containsPoint is only judged 2 deg / 5% away from every bound",
        "Scenic's ray casting is deterministic (fixed lattice, fixed shuffle seed 42 in visibility.py)",
        "the placement of object meshes (occupiedSpace) is checked against the reference model as a seam self-check, not judged here",
    ]


def angle_sets_for(tier):
    return list(ANGLES_ALL) + ([] if tier == "quick" else [(400, 200)])


def replay(ctx, case):
    S()
    t = case["type"]
    if t == "points":
        r = eval_points_uncapped(case["spec"])
        want = (tuple(case["lat"]), case["route"], tuple(case["subset"]))
        for sig, desc, c in r["viol"]:
            if (tuple(c["lat"]), c["route"], tuple(c["subset"])) == want:
                ctx.violation(sig, desc, c)
    elif t == "object":
        base = {k: case[k] for k in ("spec", "shape", "size", "typr", "place")}
        r = _uncapped(eval_object, base)
        for sig, desc, c in r["viol"]:
            if c["what"] == case["what"] and list(c["subset"]) == list(case["subset"]):
                ctx.violation(sig, desc, c)
    elif t == "branch":
        r = _uncapped(eval_branch, {"spec": case["spec"], "tier": case["tier"]})
        for sig, desc, c in r["viol"]:
            if (c["i"], c["j"], c["route"]) == (case["i"], case["j"], case["route"]):
                ctx.violation(sig, desc, c)
    elif t == "far":
        r = _uncapped(eval_far, {"spec": case["spec"], "tier": case["tier"]})
        keys = [k for k in case if k not in ("spec",)]
        for sig, desc, c in r["viol"]:
            if all(c.get(k) == case[k] for k in keys):
                ctx.violation(sig, desc, c)
    else:
        r = _uncapped(eval_programs, {"spec": case["spec"], "part": None})
        for sig, desc, c in r["viol"]:
            if c["form"] == case["form"] and c["text"] == case["text"]:
                ctx.violation(sig, desc, c)


def _uncapped(fn, arg):
    global PER_SIG_CAP
    old = PER_SIG_CAP
    PER_SIG_CAP = 10**9
    try:
        return fn(arg)
    finally:
        PER_SIG_CAP = old


def eval_points_uncapped(spec):
    return _uncapped(eval_points, spec)
