"""C19 — do choose / do shuffle and run-time random values follow the stated probabilities.

For every program of gen/dynamic.py c19_programs and every precondition truth table, the
complete choice tree of the random number generator during the simulation is explored on
the implementation (RngSeam, exact weights); the resulting exact distribution over
(event trace, outcome) is compared with the distribution of the reference step machine,
whose `pick` follows docs/reference/statements.rst (probability proportional to weight
among the enabled, not-yet-run items).
"""

from fractions import Fraction

from mc import dyn, dyncmp, explorer, seams
from mc.explorer import HarnessError, OutOfFragment
from gen import dynamic as gd
from models import stepmachine as sm

ID = "C19"
LEVEL = "model_checking"

MAXSTEPS = 9


def model_dist(prog, tables):
    def pick(en):
        tot = sum(Fraction(w) for _, w in en)
        return explorer.choose(len(en), weights=[Fraction(w) / tot for _, w in en], tag="pick")

    def once():
        out, log = dyncmp.model_view(prog, tables, default=True, pick=pick)
        return _key(out, log)

    dist = {}
    n = 0
    for ex, res, st in explorer.explore(once):
        dist[res] = dist.get(res, 0) + ex.weight
        n += 1
    return dist, n


def _key(out, log):
    out = tuple(sorted(x) if isinstance(x, frozenset) else x for x in out)
    if out[0] == "done":
        out = ("done",) + tuple(out[2:])  # termination kind is C12's business
    tags = tuple(e for e in (repr(x) for x in log))
    return (out, tags)


def impl_dist(scene, tables):
    def once():
        res = dyn.simulate(scene, tables=tables, default=True, maxSteps=MAXSTEPS, timestep=1)
        out, log = dyncmp.impl_view(res)
        if out[0] == "done":
            out = ("done",) + tuple(out[2:])
        return (tuple(out), tuple(repr(x) for x in log))

    dist = {}
    n = 0
    with seams.rng_seam():
        for ex, res, st in explorer.explore(once, max_executions=20000):
            dist[res] = dist.get(res, 0) + ex.weight
            n += 1
        if st.capped:
            raise HarnessError("C19 exploration capped")
    return dist, n


def tables_for(prog, tier):
    names = [c for c in gd.conditions_of(prog) if c.startswith("p")]
    seen = []
    for t in gd.constant_tables(names):
        seen.append(t)
    for t in gd.switching_tables(names, 3 if tier == "quick" else 5):
        seen.append(t)
    return seen or [{}]


def check_program(item):
    idx, prog, tier = item
    out = {"idx": idx, "runs": 0, "states": 0, "violations": [], "nontrivial": 0, "rejected": 0}
    p = dict(prog, timestep=1, maxSteps=MAXSTEPS)
    text = gd.render(prog)
    try:
        sc = dyn.compile_scenario(text, **({"scenario": prog["main"]} if prog.get("main") else {}))
        scene, _ = sc.generate(maxIterations=5)
    except Exception as e:  # noqa: BLE001
        out["violations"].append((f"compile:{type(e).__name__}", f"{e!r}\n{text}", {"idx": idx, "prog": prog, "tier": tier, "kind": "compile"}))
        return out
    for tables in tables_for(prog, tier):
        try:
            idist, n = impl_dist(scene, tables)
        except OutOfFragment as e:
            out["violations"].append(("out-of-fragment", f"{e!r}\n{text}", {"idx": idx, "prog": prog, "tier": tier, "tables": tables, "kind": "run"}))
            continue
        mdist, _ = model_dist(p, tables)
        out["runs"] += n
        out["states"] += len(idist)
        if sum(idist.values()) != 1 or sum(mdist.values()) != 1:
            raise HarnessError("weights do not sum to 1")
        if len(mdist) >= 2:
            out["nontrivial"] += 1
        if any(k[0][0] == "rejected" for k in mdist):
            out["rejected"] += 1
        if idist != mdist:
            keys = sorted(set(idist) | set(mdist), key=repr)
            diff = [(k[0], [t for t in k[1] if "apply" in t], str(mdist.get(k, 0)), str(idist.get(k, 0))) for k in keys if mdist.get(k, 0) != idist.get(k, 0)]
            sig = "distribution-mismatch:" + ("support" if set(idist) != set(mdist) else "probability")
            out["violations"].append(
                (sig, f"(outcome, applied actions, expected prob, observed prob): {diff[:6]}\ntables={tables}\n{text}", {"idx": idx, "prog": prog, "tier": tier, "tables": tables, "kind": "run"})
            )
    return out


def run(ctx):
    seams.rng_selftest()
    items = ctx.rotate([(idx, prog, ctx.tier) for idx, prog in gd.c19_programs(ctx.tier)])
    tot = {"runs": 0, "states": 0, "nontrivial": 0, "rejected": 0}
    for r in ctx.pmap(check_program, items, chunksize=1):
        for k in tot:
            tot[k] += r[k]
        for sig, desc, case in r["violations"]:
            ctx.violation(sig, desc, case)
    if tot["nontrivial"] == 0 or tot["rejected"] == 0:
        raise HarnessError(f"vacuous: {tot}")
    ctx.cov.update(
        states=tot["states"],
        transitions=tot["runs"],
        traces_validated_against_impl=tot["runs"],
        evaluations=tot["runs"],
        programs=len(items),
        distinct_nontrivial=tot["nontrivial"],
        rule="all sets of 2-3 sub-behaviours with weights from {0.5,1,2,3} (dict and list forms), choose and shuffle, once / twice in a row / "
        "in a loop, plus items that end without consuming a time step and write flags read by other items' preconditions (eligibility at each pick), plus run-time Uniform/Discrete/DiscreteRange values drawn twice x all constant precondition truth tables and every "
        "single switch-over x EVERY outcome of the random number generator during the simulation; non-trivial = (program, table) whose "
        "exact outcome distribution has >= 2 outcomes; states = distinct (trace, outcome) leaves",
        samples=[{"index": items[i][0], "program": gd.render(items[i][1])} for i in (0, len(items) // 2)],
        collisions={"tables_with_deadlock_rejection": tot["rejected"]},
        bounds={"maxSteps": MAXSTEPS},
    )
    ctx.assumptions.append("CPython random.choices/randint reduce to random()/_randbelow() (rng_selftest)")


def replay(ctx, case):
    from checks.c12 import _fix

    prog = _fix(case["prog"])
    prog2 = dict(prog)
    item = (case["idx"], prog2, case["tier"])
    if case["kind"] == "compile":
        r = check_program(item)
    else:
        global tables_for
        saved = tables_for
        tables_for = lambda p, t: [case["tables"]]
        try:
            r = check_program(item)
        finally:
            tables_for = saved
    for sig, desc, c in r["violations"]:
        ctx.violation(sig, desc, c)
