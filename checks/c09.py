"""C09 -- plain Python inside Scenic compiles to exactly what CPython would parse.

Translation validation by bounded-exhaustive enumeration (gen/pysyntax.py) plus a finite
corpus enumerated completely (CPython 3.12 standard library and /venv site-packages).

Oracle (independent: CPython's own parser):
    ast.dump(compileScenicAST(parse_string(src)), include_attributes=True)
 == ast.dump(REWRITE(ast.parse(src)),             include_attributes=True)
where REWRITE applies exactly the rewrites the property documents (`RefRewriter`).  A parallel
walk of the two trees localises a disagreement (signature = stage + node type + field) and
applies the excusal rules below; every excusal is counted per construct, never silent.

Precondition of the property ("does not use Scenic's reserved words as identifiers"), made
precise from docs/reference/general.rst:
  * R1, "Keywords ... reserved, cannot be used as identifiers": ScenicParser.KEYWORDS minus
    Python's own keywords = at by do new of on require to until.  A program in which any
    identifier (name, attribute, parameter, keyword argument, import, def/class name ...) is
    one of them is outside the precondition.
  * R2, "Builtin Names ... can be used but not overwritten" (globalParameters str int float)
    and the tracked names ego / workspace (assignable only by the Scenic statement
    `ego = ...`): a program that *binds* one of them through a Name node in Store/Del context
    is outside the precondition; mere uses stay in and are compared under the rewrites.
  * soft keywords stay legal identifiers: such programs are IN the corpus.
Excusal (only for a node that sits on a token to which the language reference gives a Scenic
meaning in that position; the rest of the tree is still compared):
  * `X @ Y`                      -- the vector operator (data.rst)            -> VectorOp
  * `visible <expr>` / `not visible <expr>` at the start of an operand       -> (Not)VisibleOp
  * a statement whose first token is wait / terminate / abort / mutate / take / record /
    simulator / override (statements.rst)                                    -> that statement
  * `<name>: <value>` as a statement of a class body (classDef, statements.rst): Scenic reads
    a property definition; with `= value` the compiler rejects it as documented in its
    message.  Both forms are excused, the statement is then left out of both trees.
"""

import ast
import copy
import io
import keyword
import os
import sys
import time
import tokenize
import traceback
import warnings

from mc.explorer import HarnessError
from gen import pysyntax as G

ID = "C09"
LEVEL = "translation_validation"

warnings.filterwarnings("ignore", category=SyntaxWarning)

STDLIB = "/root/.pyenv/versions/3.12.1/lib/python3.12"
SITE = "/venv/lib/python3.12/site-packages"

# the documented reserved words at the pinned commit (docs/reference/general.rst renders
# ScenicParser.KEYWORDS / compiler.builtinNames); frozen here so that a change of the sets
# themselves is a finding, not a silent change of the precondition
HARD_SCENIC = frozenset("at by do new of on require to until".split())
TRACKED = frozenset({"ego", "workspace"})
NO_REBIND = frozenset({"globalParameters", "str", "int", "float"}) | TRACKED
LIFTED = {"str": "_toStrScenic", "float": "_toFloatScenic", "int": "_toIntScenic"}
SOFT_EXPECTED = frozenset(
    "_ abort above additive after ahead along altitude always angle apparent apparently away back "
    "behavior behind below beyond bottom can case choose compose contained deg directly distance "
    "dynamic ego eventually every facing final follow following from front heading implies initial "
    "interrupt intersects invariant left match minimum model monitor mutate next not of offset "
    "override param past position precondition record relative right scenario seconds see setup "
    "shuffle simulation simulator steps take terminate top toward type visible wait when workspace".split()
)

NODES_NONTRIVIAL = 12  # a program counts as non-trivial if its reference tree has >= this many nodes
MAX_MISMATCH_PER_PROGRAM = 6

# ---------------------------------------------------------------------------------------
# reference side: the documented rewrites


class RefRewriter(ast.NodeTransformer):
    """The rewrites named by the property, applied to CPython's tree.  Synthesised nodes carry
    no location; ast.fix_missing_locations then gives them their parent's, as on Scenic's side."""

    def visit_Name(self, node):
        if isinstance(node.ctx, ast.Load) and (node.id in TRACKED or node.id == "globalParameters"):
            return ast.copy_location(ast.Call(ast.Name(node.id, ast.Load()), [], []), node)
        return node

    def visit_Call(self, node):
        args, starred = [], False
        for a in node.args:
            if isinstance(a, ast.Starred):
                starred = True
                wrapped = ast.Call(
                    ast.Name("wrapStarredValue", ast.Load()),
                    [self.visit(a.value), ast.Constant(a.value.lineno)],
                    [],
                )
                args.append(ast.Starred(wrapped, ast.Load()))
            else:
                args.append(self.visit(a))
        keywords = [self.visit(k) for k in node.keywords]
        func = self.visit(node.func)
        if isinstance(func, ast.Name) and func.id in LIFTED:
            func.id = LIFTED[func.id]
        if starred:
            new = ast.Call(ast.Name("callWithStarArgs", ast.Load()), [func] + args, keywords)
        else:
            new = ast.Call(func, args, keywords)
        return ast.copy_location(new, node)

    def visit_ClassDef(self, node):
        if not node.bases:
            node.bases = [ast.Name("Object", ast.Load())]
        node.body = list(node.body) + [
            ast.Assign(targets=[ast.Name("_scenic_properties", ast.Store())], value=ast.Dict([], []))
        ]
        return self.generic_visit(node)


# ---------------------------------------------------------------------------------------
# precondition


def identifiers(tree):
    """Every identifier token of the program, from CPython's tree, and the bound Name ids."""
    ids, bound = set(), set()
    for n in ast.walk(tree):
        t = type(n)
        if t is ast.Name:
            ids.add(n.id)
            if not isinstance(n.ctx, ast.Load):
                bound.add(n.id)
        elif t is ast.Attribute:
            ids.add(n.attr)
        elif t is ast.arg:
            ids.add(n.arg)
        elif t is ast.keyword:
            if n.arg:
                ids.add(n.arg)
        elif t in (ast.FunctionDef, ast.AsyncFunctionDef, ast.ClassDef):
            ids.add(n.name)
        elif t is ast.alias:
            ids.update(n.name.split("."))
            if n.asname:
                ids.add(n.asname)
        elif t is ast.ImportFrom:
            if n.module:
                ids.update(n.module.split("."))
        elif t in (ast.Global, ast.Nonlocal):
            ids.update(n.names)
        elif t is ast.ExceptHandler:
            if n.name:
                ids.add(n.name)
        elif t in (ast.MatchAs, ast.MatchStar):
            if n.name:
                ids.add(n.name)
        elif t is ast.MatchMapping:
            if n.rest:
                ids.add(n.rest)
        elif t is ast.MatchClass:
            ids.update(n.kwd_attrs)
        elif t in (ast.TypeVar, ast.TypeVarTuple, ast.ParamSpec):
            ids.add(n.name)
    return ids, bound


def precondition(tree):
    """None if the program satisfies the precondition, else the reason (a short string)."""
    ids, bound = identifiers(tree)
    hard = ids & HARD_SCENIC
    if hard:
        return "reserved-keyword-as-identifier:" + ",".join(sorted(hard))
    reb = bound & NO_REBIND
    if reb:
        return "rebinds-builtin-name:" + ",".join(sorted(reb))
    return None


# ---------------------------------------------------------------------------------------
# the parallel walk

_SAST = None
STMT_KEYWORD = {
    "Wait": "wait", "Terminate": "terminate", "Abort": "abort", "Mutate": "mutate", "Take": "take",
    "Record": "record", "Simulator": "simulator", "Override": "override",
}  # fmt: skip


def sast():
    global _SAST
    if _SAST is None:
        import scenic.syntax.ast as s

        _SAST = s
    return _SAST


class Walk:
    def __init__(self, lines, stage):
        self.lines = lines
        self.stage = stage
        self.mismatches = []  # (signature, detail, lineno)
        self.seen = {}
        self.excused = []  # (construct, lineno)
        self.nodes = 0

    def text_at(self, p, word):
        """Does the token `word` start at the reference node's position?"""
        try:
            line = self.lines[p.lineno - 1].encode("utf-8")
        except (IndexError, AttributeError):
            return False
        seg = line[p.col_offset : p.col_offset + len(word) + 1].decode("utf-8", "replace")
        return seg[: len(word)] == word and not (seg[len(word) :].isidentifier() or seg[len(word) :].isdigit())

    def mismatch(self, kind, path, detail, node):
        if any(x.startswith("JoinedStr.") for x in path):
            kind = ("fstring-spec/" if "FormattedValue.format_spec" in path else "fstring/") + kind
        sig = f"ast-mismatch:{self.stage}:{kind}"
        ln = getattr(node, "lineno", None)
        if sig in self.seen:
            self.seen[sig] += 1
            return
        self.seen[sig] = 1
        if len(self.mismatches) < MAX_MISMATCH_PER_PROGRAM:
            where = "/".join(path[-6:])
            src = self.lines[ln - 1].rstrip() if ln and 0 < ln <= len(self.lines) else ""
            self.mismatches.append((sig, f"{detail} at {where} (line {ln}: {src[:160]!r})", ln))

    def excuse(self, s, p, path):
        S = sast()
        t = type(s).__name__
        if t == "VectorOp" and isinstance(p, ast.BinOp) and isinstance(p.op, ast.MatMult):
            new = ast.BinOp(
                left=self.walk(s.left, p.left, path + ["VectorOp.left"]),
                op=ast.MatMult(),
                right=self.walk(s.right, p.right, path + ["VectorOp.right"]),
            )
            for a in p._attributes:
                setattr(new, a, getattr(s, a, None))
            self.attrs(new, p, path + ["VectorOp"])
            self.excused.append(("binary '@' is Scenic's vector operator", p.lineno))
            return new
        if t == "VisibleOp" and isinstance(p, ast.expr) and self.text_at(p, "visible"):
            self.excused.append(("'visible <region>' operator", p.lineno))
            return copy.deepcopy(p)
        if t == "NotVisibleOp" and isinstance(p, ast.expr) and self.text_at(p, "not"):
            self.excused.append(("'not visible <region>' operator", p.lineno))
            return copy.deepcopy(p)
        if t in STMT_KEYWORD and isinstance(p, ast.stmt) and self.text_at(p, STMT_KEYWORD[t]):
            self.excused.append((f"statement beginning with soft keyword '{STMT_KEYWORD[t]}'", p.lineno))
            return copy.deepcopy(p)
        if (
            t == "PropertyDef"
            and isinstance(p, ast.AnnAssign)
            and p.simple == 1
            and p.value is None
            and path
            and path[-1] == "ClassDef.body"
            and p.target.id == s.property
            and not s.attributes
        ):
            self.walk(s.value, p.annotation, path + ["PropertyDef.value"])
            self.excused.append(("class-body '<name>: <value>' is a property definition", p.lineno))
            return copy.deepcopy(p)
        return None

    def attrs(self, s, p, path):
        for a in p._attributes:
            sv, pv = getattr(s, a, None), getattr(p, a, None)
            if sv != pv:
                kind = f"{type(p).__name__}.{a}"
                if a in ("col_offset", "end_col_offset"):
                    ln = getattr(p, "lineno" if a == "col_offset" else "end_lineno", None)
                    line = self.lines[ln - 1] if ln and 0 < ln <= len(self.lines) else ""
                    if sv is not None and not line.isascii() and len(line[:sv].encode("utf-8")) == pv:
                        kind = "col_offset:characters-instead-of-utf8-bytes"
                    elif sv is not None and getattr(p, "end_lineno", None) not in (None, getattr(p, "lineno", None)):
                        # a node spanning several lines with non-ASCII text: CPython's byte offsets
                        # of multi-line tokens also count bytes of the earlier lines
                        span = self.lines[p.lineno - 1 : p.end_lineno]
                        if not all(l.isascii() for l in span):
                            kind = "col_offset:non-ascii-multiline-token"
                self.mismatch(kind, path, f"{a}: Scenic {sv!r}, CPython {pv!r}", p)
                setattr(s, a, pv)

    def walk(self, s, p, path):
        """Compare Scenic's node s with CPython's node p; returns the node to keep in Scenic's
        tree (s itself, or a copy of p where an excusal or a recorded mismatch replaced it)."""
        self.nodes += 1
        if isinstance(s, sast().AST):
            r = self.excuse(s, p, path)
            if r is not None:
                return r
            self.mismatch(
                f"scenic-node:{type(s).__name__}-for-{type(p).__name__}",
                path,
                f"Scenic parsed {type(s).__name__} where CPython has {type(p).__name__}",
                p,
            )
            return copy.deepcopy(p)
        if type(s) is not type(p):
            self.mismatch(
                f"type:{type(s).__name__}-for-{type(p).__name__}",
                path,
                f"Scenic node {type(s).__name__}, CPython node {type(p).__name__}",
                p if hasattr(p, "lineno") else s,
            )
            return copy.deepcopy(p)
        tn = type(p).__name__
        for f in p._fields:
            sv, pv = getattr(s, f, None), getattr(p, f, None)
            here = path + [f"{tn}.{f}"]
            if isinstance(pv, list) or isinstance(sv, list):
                if not isinstance(sv, list) or not isinstance(pv, list) or len(sv) != len(pv):
                    ls = len(sv) if isinstance(sv, list) else repr(sv)
                    lp = len(pv) if isinstance(pv, list) else repr(pv)
                    self.mismatch(f"{tn}.{f}:length", here, f"list length: Scenic {ls}, CPython {lp}", p)
                    setattr(s, f, copy.deepcopy(pv))
                    continue
                for i in range(len(pv)):
                    sv[i] = self.value(sv[i], pv[i], here, p)
            else:
                nv = self.value(sv, pv, here, p)
                if nv is not sv:
                    setattr(s, f, nv)
        self.attrs(s, p, path + [tn])
        return s

    def value(self, sv, pv, here, parent):
        if isinstance(pv, ast.AST):
            if not isinstance(sv, ast.AST):
                self.mismatch(f"{here[-1]}:missing", here, f"Scenic has {sv!r}, CPython a {type(pv).__name__}", parent)
                return copy.deepcopy(pv)
            return self.walk(sv, pv, here)
        if isinstance(sv, ast.AST):
            self.mismatch(f"{here[-1]}:extra", here, f"Scenic has a {type(sv).__name__}, CPython {pv!r}", parent)
            return pv
        if type(sv) is not type(pv) or repr(sv) != repr(pv):
            self.mismatch(f"{here[-1]}:value", here, f"Scenic {sv!r:.80}, CPython {pv!r:.80}", parent)
            return pv
        return sv


def strip_class_annotations(tree, record=None):
    """Replace `<name>: ...` statements of class bodies by `pass` at the same location."""
    for n in ast.walk(tree):
        if isinstance(n, ast.ClassDef):
            for i, st in enumerate(n.body):
                if isinstance(st, ast.AnnAssign):
                    if record is not None and st.value is not None:
                        record.append(("class-body '<name>: <type> = <value>' rejected: annotated assignment in a Scenic class", st.lineno))
                    n.body[i] = ast.copy_location(ast.Pass(), st)
    return tree


# ---------------------------------------------------------------------------------------
# judging one program


def escape_signature(exc):
    """escape:<Type>:<innermost scenic/pegen function>; an error raised by builtin compile()
    on the translated tree (function compileTranslatedTree) also carries its message, since
    there the function does not identify the construct."""
    fn = where_raised(exc)
    sig = f"escape:{type(exc).__name__}:{fn}"
    if fn == "generic_visit":  # the compiler's "node needs visitor" assertion: name the node
        import re

        m = re.search(r'node "(\w+)"', str(exc))
        if m:
            sig += ":" + m.group(1)
    if fn == "compileTranslatedTree":
        import re

        msg = re.sub(r"'[^']*'|\"[^\"]*\"", "Q", str(exc))
        sig += ":" + re.sub(r"[^A-Za-z0-9_]+", "-", re.sub(r"\d+", "N", msg)).strip("-")[:60]
    return sig


def where_raised(exc):
    tb = traceback.extract_tb(exc.__traceback__)
    import re

    for fr in reversed(tb):
        if "/scenic/" in fr.filename or "/pegen/" in fr.filename:
            # generated helper rules are renumbered by any grammar edit: name the enclosing rule
            if re.fullmatch(r"_(tmp|loop\d|gather)_\d+|memoize_wrapper|memoize_left_rec_wrapper|<lambda>", fr.name):
                continue
            return fr.name
    return tb[-1].name if tb else "?"


def normalise_msg(msg):
    import re

    msg = re.sub(r"'[^']*'|\"[^\"]*\"", "Q", str(msg))
    msg = re.sub(r"\d+", "N", msg)
    msg = re.sub(r"[^A-Za-z0-9_]+", "-", msg).strip("-")
    return msg[:70]


def token_at(e, lines):
    """Kind of the token the syntax error points at (keyword/operator text, NAME, NUMBER, STRING)."""
    import re

    ln, off = getattr(e, "lineno", None), getattr(e, "offset", None)
    if not (isinstance(ln, int) and isinstance(off, int) and 0 < ln <= len(lines)):
        return "EOF"
    rest = lines[ln - 1][max(off - 1, 0) :]
    m = re.match(r"[A-Za-z_]\w*", rest)
    if m:
        w = m.group(0)
        if rest[len(w) : len(w) + 1] in ("'", '"') and len(w) <= 2:
            return "STRING"
        return w if keyword.iskeyword(w) or w in SOFT_EXPECTED or w in HARD_SCENIC else "NAME"
    if re.match(r"\.?\d", rest):
        return "NUMBER"
    if rest[:1] in ("'", '"'):
        return "STRING"
    m = re.match(r"(\*\*=?|//=?|>>=?|<<=?|->|:=|[-+*/%@&|^<>=!]=|\.\.\.|[-+*/%@&|^~<>=()\[\]{},:.;!])", rest)
    return m.group(0) if m else ("NEWLINE" if not rest.strip() else "OTHER")


def stmt_at(tree, lineno):
    """Type of the innermost statement of CPython's tree covering the line."""
    best = None
    for n in ast.walk(tree):
        if isinstance(n, ast.stmt) and n.lineno <= lineno <= (n.end_lineno or n.lineno):
            if best is None or (n.lineno, -(n.end_lineno or n.lineno)) >= (best.lineno, -(best.end_lineno or best.lineno)):
                best = n
    return type(best).__name__ if best is not None else "none"


def at_keyword(e, lines, tree=None):
    """'@kw' if a generic message ("invalid syntax", "expected ':'") points at a keyword; for a
    specific message '@stmt:<type of the CPython statement at the error line>'; else ''."""
    if normalise_msg(getattr(e, "msg", e)) not in ("invalid-syntax", "expected-Q"):
        ln = getattr(e, "lineno", None)
        if tree is not None and isinstance(ln, int):
            return "@stmt:" + stmt_at(tree, ln)
        return ""
    t = token_at(e, lines)
    return "@" + t if t.isalpha() and t.islower() else ""


def count_nodes(tree):
    return sum(1 for _ in ast.walk(tree))


def judge(src, name="<string>"):
    """-> dict(status, violations[(sig, desc)], excused[(construct, line)], nodes)."""
    from scenic.core.errors import ScenicSyntaxError
    from scenic.syntax.compiler import compileScenicAST
    from scenic.syntax.parser import parse_string

    res = {"status": "ok", "violations": [], "excused": [], "nodes": 0, "mismatch_counts": {}}
    try:
        p_tree = ast.parse(src)
        compile(src, name, "exec", dont_inherit=True)
    except (SyntaxError, ValueError, RecursionError, MemoryError, OverflowError) as e:
        res["status"] = "not-python:" + type(e).__name__
        return res
    why = precondition(p_tree)
    if why:
        res["status"] = "precondition:" + why
        return res
    lines = src.split("\n")
    res["nodes"] = count_nodes(p_tree)
    # -- stage A: the parser
    try:
        s_tree = parse_string(src, "exec", filename=name)
    except ScenicSyntaxError as e:
        ln = getattr(e, "lineno", None)
        text = lines[ln - 1].rstrip()[:160] if isinstance(ln, int) and 0 < ln <= len(lines) else ""
        res["violations"].append(
            (
                "rejects-valid-python:parser:" + normalise_msg(getattr(e, "msg", e)) + at_keyword(e, lines, p_tree),
                f"CPython compiles the program, Scenic's parser rejects it: {type(e).__name__}: {e} (line {ln}: {text!r})",
            )
        )
        res["status"] = "rejected"
        return res
    except Exception as e:
        res["violations"].append(
            (
                escape_signature(e),
                f"Scenic's parser raised {type(e).__name__}: {str(e)[:200]} on a program CPython compiles",
            )
        )
        res["status"] = "crashed"
        return res
    w = Walk(lines, "parser")
    old = sys.getrecursionlimit()
    sys.setrecursionlimit(max(old, 20000))
    try:
        s_tree = w.walk(s_tree, p_tree, [])
        record = []
        strip_class_annotations(s_tree, record)
        strip_class_annotations(p_tree)
        res["excused"] = w.excused + record
        res["mismatch_counts"].update(w.seen)
        res["violations"] += [(sig, "parse trees differ: " + d) for sig, d, _ in w.mismatches]
    finally:
        sys.setrecursionlimit(old)
    # -- stage B: the compiler
    try:
        c_tree, _reqs = compileScenicAST(s_tree, filename=name)
    except ScenicSyntaxError as e:
        ln = getattr(e, "lineno", None)
        text = lines[ln - 1].rstrip()[:160] if isinstance(ln, int) and 0 < ln <= len(lines) else ""
        res["violations"].append(
            (
                "rejects-valid-python:compiler:" + normalise_msg(getattr(e, "msg", e)) + at_keyword(e, lines, p_tree),
                f"CPython compiles the program, Scenic's compiler rejects it: {type(e).__name__}: {e} (line {ln}: {text!r})",
            )
        )
        res["status"] = "rejected"
        return res
    except Exception as e:
        res["violations"].append(
            (
                escape_signature(e),
                f"Scenic's compiler raised {type(e).__name__}: {str(e)[:200]} on a program CPython compiles",
            )
        )
        res["status"] = "crashed"
        return res
    sys.setrecursionlimit(max(old, 20000))
    try:
        r_tree = ast.fix_missing_locations(RefRewriter().visit(p_tree))
        if ast.dump(c_tree, include_attributes=True) != ast.dump(r_tree, include_attributes=True):
            w2 = Walk(lines, "compiler")
            w2.walk(c_tree, r_tree, [])
            if not w2.mismatches:
                res["violations"].append(("ast-mismatch:compiler:unlocalised", "dumps differ but the walk found no difference"))
            res["violations"] += [(sig, "compiled tree differs from the rewritten reference: " + d) for sig, d, _ in w2.mismatches]
            res["mismatch_counts"].update(w2.seen)
    finally:
        sys.setrecursionlimit(old)
    try:
        compile(c_tree, name, "exec", dont_inherit=True)
    except RecursionError:
        pass
    except Exception as e:
        res["violations"].append(
            (
                f"python-compile-fails:{type(e).__name__}:{normalise_msg(e)}",
                f"builtin compile() rejects the tree Scenic produced: {type(e).__name__}: {e}",
            )
        )
    if res["violations"]:
        res["status"] = "violating"
    return res


def judge_embedded(where, scenic_src, python_src):
    """Parser-level comparison of a Python fragment embedded in a Scenic construct."""
    from scenic.core.errors import ScenicSyntaxError
    from scenic.syntax.compiler import compileScenicAST
    from scenic.syntax.parser import parse_string

    S = sast()
    res = {"status": "ok", "violations": [], "excused": [], "nodes": 0, "mismatch_counts": {}}
    try:
        p_tree = ast.parse(python_src)
    except (SyntaxError, ValueError):
        res["status"] = "not-python"
        return res
    p_top = p_tree.body[0]
    if where in ("behavior", "monitor"):
        p_sub = p_top.body
        first = p_sub[0]
        if isinstance(first, ast.Expr) and isinstance(first.value, ast.Constant) and isinstance(first.value.value, (str, bytes)):
            res["status"] = "skipped:docstring-position"
            return res
    elif where == "require":
        p_sub = [p_top.test]
        if scenic_src[len(G.REQ_PREFIX) :].lstrip().startswith("["):
            res["status"] = "skipped:require[p]-position"  # `require[<number>] <cond>` is Scenic syntax
            return res
    else:
        p_sub = [p_top.value]
    try:
        s_tree = parse_string(scenic_src, "exec", filename="<embedded>")
    except ScenicSyntaxError as e:
        res["violations"].append(
            (
                f"rejects-valid-python:{where}:" + normalise_msg(getattr(e, "msg", e)),
                f"Python fragment rejected inside a {where}: {e}\n{scenic_src}",
            )
        )
        res["status"] = "rejected"
        return res
    except Exception as e:
        res["violations"].append((escape_signature(e), f"parser raised {type(e).__name__}: {e}\n{scenic_src}"))
        res["status"] = "crashed"
        return res
    s_top = s_tree.body[0]
    try:
        if where == "behavior":
            assert type(s_top) is S.BehaviorDef
            s_sub = s_top.body
        elif where == "monitor":
            assert type(s_top) is S.MonitorDef
            s_sub = s_top.body
        elif where == "require":
            assert type(s_top) is S.Require
            s_sub = [s_top.cond]
        else:
            assert type(s_top) is S.TrackedAssign and type(s_top.value) is S.New
            (spec,) = s_top.value.specifiers
            assert type(spec) is S.WithSpecifier and spec.prop == "foo"
            s_sub = [spec.value]
    except (AssertionError, ValueError, AttributeError):
        res["violations"].append((f"ast-mismatch:parser:{where}-fragment-not-parsed-as-one-expression", f"the fragment did not become the {where}'s operand (got {type(s_top).__name__}) in\n{scenic_src}"))
        res["status"] = "violating"
        return res
    w = Walk(scenic_src.split("\n"), "parser")
    if len(s_sub) != len(p_sub):
        w.mismatch("body:length", [where], f"{len(s_sub)} vs {len(p_sub)} statements", p_top)
    else:
        for a, b in zip(s_sub, p_sub):
            w.walk(a, b, [where])
    res["nodes"] = w.nodes
    res["excused"] = w.excused
    res["mismatch_counts"].update(w.seen)
    res["violations"] += [(sig, f"fragment parsed differently inside a {where}: {d}\n{scenic_src}") for sig, d, _ in w.mismatches]
    try:
        s_tree2 = parse_string(scenic_src, "exec", filename="<embedded>")
        tree, _ = compileScenicAST(s_tree2, filename="<embedded>")
        from scenic.syntax.translator import compileTranslatedTree

        compileTranslatedTree(tree, "<embedded>")
        res["compiled"] = True
    except (ScenicSyntaxError, SyntaxError):
        res["compiled"] = False  # e.g. `yield` in a behavior: documented error
    except Exception as e:
        res["violations"].append((escape_signature(e), f"compiler raised {type(e).__name__}: {e}\n{scenic_src}"))
    if res["violations"]:
        res["status"] = "violating"
    return res


# ---------------------------------------------------------------------------------------
# work items (module-level functions for ctx.pmap)


def read_source(path):
    with open(path, "rb") as f:
        raw = f.read()
    enc, _ = tokenize.detect_encoding(io.BytesIO(raw).readline)
    text = raw.decode(enc)
    if text.startswith("﻿"):
        text = text[1:]
    return text


_last_cpu = [None]


def _cpu_since_last():
    now = time.process_time()
    prev, _last_cpu[0] = _last_cpu[0], now
    return 0.0 if prev is None else now - prev


def _pack(res, case, label, src_for_sample=None):
    name = case.get("path") or case.get("src") or case.get("scenic") or ""
    out = {
        "name": name if "path" in case else repr(name[:60]),
        "cpu": _cpu_since_last(),
        "status": res["status"],
        "nodes": res["nodes"],
        "excused": res["excused"],
        "mismatch_counts": res["mismatch_counts"],
        "label": label,
        "violations": [(sig, desc, case) for sig, desc in res["violations"]],
    }
    return out


def work_file(path):
    t0 = time.time()
    try:
        src = read_source(path)
    except (SyntaxError, UnicodeDecodeError, LookupError):
        return [{"status": "not-python:undecodable", "nodes": 0, "excused": [], "mismatch_counts": {}, "label": "file", "violations": [], "lines": 0}]
    res = judge(src, path)
    out = _pack(res, {"kind": "file", "path": path}, "file")
    out["lines"] = src.count("\n") + 1
    out["path"] = path
    out["secs"] = time.time() - t0
    return [out]


def embedded_outs(src):
    """Judge the embeddings of a one-statement module in a behavior / monitor body and, if it
    is an expression statement, in a `require` condition and a specifier argument."""
    outs = []
    body = src[:-1]
    kinds = [("stmt", body)]
    try:
        t = ast.parse(src)
        if len(t.body) == 1 and isinstance(t.body[0], ast.Expr):
            kinds.append(("expr", body))
    except SyntaxError:
        return outs
    for kind, frag in kinds:
        for where, ssrc, psrc in G.embeddings(kind, frag):
            r2 = judge_embedded(where, ssrc, psrc)
            o2 = _pack(r2, {"kind": "embedded", "where": where, "scenic": ssrc, "python": psrc}, "embedded-" + where)
            o2["compiled"] = r2.get("compiled")
            outs.append(o2)
    return outs


def work_text(item):
    label, src, embed = item
    res = judge(src)
    outs = [_pack(res, {"kind": "text", "label": label, "src": src}, label.split(":")[0])]
    if embed:
        outs += embedded_outs(src)
    return outs


def work_job(job):
    """An ASDL job: realise its programs and judge each (and its embeddings if asked)."""
    job, embed = job
    progs, ntrees = G.realize(job)
    outs = []
    for ctxlabel, src in progs:
        res = judge(src)
        o = _pack(res, {"kind": "text", "label": "asdl:" + "/".join(job) + ":" + ctxlabel, "src": src}, "asdl-" + job[0])
        outs.append(o)
        if embed and ctxlabel == "module":
            outs += embedded_outs(src)
    if not progs:
        outs.append({"status": "no-program", "nodes": 0, "excused": [], "mismatch_counts": {}, "label": "asdl-" + job[0], "violations": []})
    return outs


# ---------------------------------------------------------------------------------------


def corpus_files():
    std, site = [], []
    for root, dirs, files in os.walk(STDLIB):
        dirs[:] = sorted(d for d in dirs if d not in ("site-packages", "test", "tests", "idle_test", "__pycache__"))
        for f in sorted(files):
            if f.endswith(".py") and not f.startswith("test_"):
                std.append(os.path.join(root, f))
    for root, dirs, files in os.walk(SITE):
        dirs[:] = sorted(d for d in dirs if d != "__pycache__")
        for f in sorted(files):
            if f.endswith(".py"):
                site.append(os.path.join(root, f))
    return std, site


def too_large(path):
    if os.path.getsize(path) > MAX_FILE_BYTES:
        return True
    try:
        with open(path, "rb") as f:
            return any(len(line) > MAX_LINE_CHARS for line in f)
    except OSError:
        return True


def check_reserved_sets(ctx):
    from scenic.syntax.parser import ScenicParser
    import scenic.syntax.compiler as comp

    hard = set(ScenicParser.KEYWORDS) - set(keyword.kwlist)
    if hard != HARD_SCENIC:
        ctx.violation(
            "reserved-words-changed:hard-keywords",
            f"Scenic's hard keywords beyond Python's are {sorted(hard)}, the documented set is {sorted(HARD_SCENIC)}: "
            f"every Python program using {sorted(hard ^ HARD_SCENIC)} as an identifier changes status",
            {"kind": "reserved"},
        )
    soft = set(ScenicParser.SOFT_KEYWORDS)
    if soft != SOFT_EXPECTED:
        ctx.violation(
            "reserved-words-changed:soft-keywords",
            f"soft keyword set changed by {sorted(soft ^ SOFT_EXPECTED)}",
            {"kind": "reserved"},
        )
    if set(comp.builtinNames) | set(comp.trackedNames) != NO_REBIND:
        ctx.violation(
            "reserved-words-changed:builtin-names",
            f"builtin/tracked names are {sorted(set(comp.builtinNames) | set(comp.trackedNames))}, documented {sorted(NO_REBIND)}",
            {"kind": "reserved"},
        )


def run(ctx):
    from scenic.syntax.parser import ScenicParser

    quick = ctx.tier == "quick"
    check_reserved_sets(ctx)
    t0 = time.time()
    jobs = G.triple_jobs(ctx.tier)
    texts = G.operator_programs(ctx.tier) + G.surface_programs(ctx.tier)
    texts += G.soft_keyword_programs(sorted(SOFT_EXPECTED)) + G.rewrite_programs()
    std, site = corpus_files()
    sized = sorted(((os.path.getsize(p), p) for p in std))
    if quick:
        files = [p for _, p in sized[:QUICK_FILES]]
    else:
        files = [p for _, p in sorted(((os.path.getsize(p), p) for p in std + site), reverse=True)]
    skipped_large = [p for p in files if too_large(p)]
    files = [p for p in files if p not in set(skipped_large)]
    gen_secs = time.time() - t0

    stats = {
        "programs": 0, "compared": 0, "nontrivial": 0, "precondition_excluded": 0, "not_python": 0,
        "rejected_or_crashed": 0, "violating": 0, "lines": 0, "no_program_jobs": 0, "embedded": 0,
        "embedded_compiled": 0,
    }  # fmt: skip
    by_family = {}
    precond_reasons = {}
    excused = {}
    excused_examples = {}
    excused_corpus = {}
    excused_programs = 0
    mismatch_total = {}
    viol_seen = {}
    viol_examples = {}
    slow = []

    def absorb(outs):
        nonlocal excused_programs
        for o in outs:
            fam = o["label"]
            st = o["status"]
            fs = by_family.setdefault(fam, {"programs": 0, "compared": 0, "violating": 0, "cpu_s": 0.0})
            fs["cpu_s"] = round(fs["cpu_s"] + o.get("cpu", 0.0), 3)
            if st == "no-program":
                stats["no_program_jobs"] += 1
                continue
            fs["programs"] += 1
            stats["programs"] += 1
            if st.startswith("precondition:"):
                stats["precondition_excluded"] += 1
                r = st.split(":")[1]
                precond_reasons[r] = precond_reasons.get(r, 0) + 1
                continue
            if st.startswith("not-python") or st.startswith("skipped"):
                stats["not_python"] += 1
                continue
            if fam.startswith("embedded"):
                stats["embedded"] += 1
                stats["embedded_compiled"] += 1 if o.get("compiled") else 0
            stats["compared"] += 1
            fs["compared"] += 1
            stats["lines"] += o.get("lines", 0)
            if o["nodes"] >= NODES_NONTRIVIAL:
                stats["nontrivial"] += 1
            if o["excused"]:
                excused_programs += 1
                fs["excused_programs"] = fs.get("excused_programs", 0) + 1
                fs["excused_nodes"] = fs.get("excused_nodes", 0) + len(o["excused"])
                if fam == "file":
                    for construct, line in o["excused"]:
                        excused_corpus[construct] = excused_corpus.get(construct, 0) + 1
            for construct, line in o["excused"]:
                excused[construct] = excused.get(construct, 0) + 1
                ex = excused_examples.setdefault(construct, [])
                if len(ex) < 3:
                    ex.append(f"{o.get('name', fam)}:{line}")
            for k, v in o["mismatch_counts"].items():
                mismatch_total[k] = mismatch_total.get(k, 0) + v
            if st in ("rejected", "crashed"):
                stats["rejected_or_crashed"] += 1
            if o["violations"]:
                stats["violating"] += 1
                fs["violating"] += 1
            for sig, desc, case in o["violations"]:
                n = viol_seen.get(sig, 0)
                viol_seen[sig] = n + 1
                text = case.get("src") or case.get("scenic") or case.get("path")
                old = viol_examples.get(sig)
                if old is None or ("path" not in case and len(text) < len(old["input"])) or ("path" in old.get("case", {}) and "path" not in case):
                    viol_examples[sig] = {"input": text, "description": desc[:400], "case": {k: v for k, v in case.items() if k in ("kind", "path", "where")}}
                if n < 3:  # the runner prints two per signature; keep the evidence small
                    ctx.violation(sig, desc, case)
            if o.get("secs", 0) > 20:
                slow.append((round(o["secs"], 1), o.get("path")))

    # embeddings (thorough): every triple / arity program and every two-operator program
    job_items = [(j, (not quick) and j[0] != "depth3") for j in jobs]
    text_items = [(lab, src, (not quick) and lab.startswith(("nest", "flat")) and src.count(" ") <= 6 and "\n" not in src[:-1]) for lab, src in texts]
    for outs in ctx.pmap(work_job, ctx.rotate(job_items), chunksize=8 if quick else 32):
        absorb(outs)
    for outs in ctx.pmap(work_text, ctx.rotate(text_items), chunksize=64):
        absorb(outs)
    corpus0 = dict(stats)
    for outs in ctx.pmap(work_file, files if not quick else ctx.rotate(files), chunksize=1):
        absorb(outs)
    corpus = {k: stats[k] - corpus0[k] for k in stats}

    if stats["nontrivial"] == 0 or corpus["compared"] == 0:
        raise HarnessError("vacuous: no non-trivial program compared")
    if by_family.get("asdl-triple", {}).get("compared", 0) < 1000:
        raise HarnessError("vacuous: fewer than 1000 ASDL triple programs compared")
    if not excused and not any(s.startswith("ast-mismatch:parser:scenic-node") for s in viol_seen):
        raise HarnessError("vacuous: no Scenic-syntax position was ever reached (excusal rules never exercised)")

    ctx.cov.update(
        programs=stats["compared"],
        disagreements_checked=sum(mismatch_total.values()) + sum(excused.values()),
        evaluations=stats["compared"],
        distinct_nontrivial=stats["nontrivial"],
        rule="every (parent, field, child) triple of Python 3.12's abstract grammar + field-arity products "
        "(+ depth-3 closure in thorough) realised with ast.unparse in every statement context CPython compiles; every "
        "ordered operator pair in both nestings and flat; text-level literal/layout forms; every soft keyword in every "
        "template position; every corpus file satisfying the precondition.  Non-trivial = reference tree with >= "
        f"{NODES_NONTRIVIAL} nodes.  Each program: full ast.dump(include_attributes=True) equality after the documented rewrites.",
        samples=[
            {"family": lab, "source": src[:200]} for lab, src in (texts[0], texts[len(texts) // 2], texts[-1])
        ]
        + [{"family": "corpus", "path": p} for p in files[:2]],
        asdl_jobs=len(jobs),
        asdl_jobs_without_any_valid_program=stats["no_program_jobs"],
        generated_text_programs=len(texts),
        corpus_files=len(files),
        corpus_files_over_size_bound=[os.path.relpath(p, "/") for p in skipped_large],
        corpus=corpus,
        corpus_lines_compared=stats["lines"],
        precondition_excluded=stats["precondition_excluded"],
        precondition_reasons=precond_reasons,
        not_valid_python_or_skipped=stats["not_python"],
        excluded_scenic_syntax={k: {"nodes": v, "examples": excused_examples[k]} for k, v in sorted(excused.items())},
        excluded_scenic_syntax_programs=excused_programs,
        excluded_scenic_syntax_in_corpus=dict(sorted(excused_corpus.items())),
        mismatching_nodes_by_kind=dict(sorted(mismatch_total.items())),
        violating_programs=stats["violating"],
        violations_by_signature=dict(sorted(viol_seen.items())),
        violation_examples=dict(sorted(viol_examples.items())),
        embedded_fragments=stats["embedded"],
        embedded_fragments_compiled=stats["embedded_compiled"],
        by_family=by_family,
        slowest_files=sorted(slow, reverse=True)[:5],
        bounds={"tier": ctx.tier, "identifiers": list(G.IDS), "constants": [repr(c) for c in G.CONSTS],
                "quick_corpus": f"{QUICK_FILES} smallest standard-library files" if quick else "whole corpus",
                "max_file_bytes": MAX_FILE_BYTES, "max_line_chars": MAX_LINE_CHARS,
                "generation_seconds": round(gen_secs, 1)},
    )  # fmt: skip
    ctx.assumptions += [
        "reference = CPython 3.12.1 ast.parse of the same text; the rewrites applied to it are exactly those named in the property",
        "reserved words frozen from docs/reference/general.rst at the pinned commit (a change of the sets is itself reported)",
        "locations of nodes synthesised by a rewrite are those ast.fix_missing_locations gives on both sides",
    ]


QUICK_FILES = 300
MAX_FILE_BYTES = 300_000  # corpus bound (thorough): larger files and files with a line longer than
MAX_LINE_CHARS = 10_000  # MAX_LINE_CHARS are listed, not parsed (the parser is superlinear in line length)


def replay(ctx, case):
    if case["kind"] == "reserved":
        check_reserved_sets(ctx)
        return
    if case["kind"] == "file":
        outs = work_file(case["path"])
    elif case["kind"] == "embedded":
        r = judge_embedded(case["where"], case["scenic"], case["python"])
        outs = [_pack(r, case, "embedded")]
    else:
        outs = work_text((case["label"], case["src"], False))
    for o in outs:
        for sig, desc, c in o["violations"]:
            ctx.violation(sig, desc, c)
