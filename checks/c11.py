"""C11 — temporal requirements accept exactly the traces satisfying the formula.

All formulas up to a depth bound (gen/ltl.py, fully parenthesised, plus the unparenthesised
forms whose parse the reference documents) x ALL truth-value traces of the atoms up to a
length bound x declaration sites (top level, setup block of a sub-scenario started at step
0/1, dynamically inside a compose block at step 0/1) are run on the implementation; the
verdict (accepted / rejected and when) is compared with finite-trace LTL with strong next
and strong until (models/fltl.py).  Early rejection is only allowed when a brute-force
search over all continuations finds none that satisfies the formula.
"""

import itertools

from mc import dyn
from mc.explorer import HarnessError
from gen import ltl as gl
from models import fltl

ID = "C11"
LEVEL = "model_checking"

SITES = ("top", "setup0", "setup1", "compose0", "compose1")


def program(text_formula, site):
    head = "import verif_probe as probe\n"
    if site == "top":
        return head + f'ego = new Object with name "A1"\nrequire {text_formula}\n'
    delay = "        wait\n" if site.endswith("1") else ""
    if site.startswith("setup"):
        return (
            head
            + "scenario Sub():\n    setup:\n"
            + f"        require {text_formula}\n"
            + '        terminate after probe.val("K") steps\n'
            + 'scenario Main():\n    setup:\n        ego = new Object with name "A1"\n    compose:\n'
            + delay
            + "        do Sub()\n"
        )
    return (
        head
        + 'scenario Main():\n    setup:\n        ego = new Object with name "A1"\n    compose:\n'
        + delay
        + f"        require {text_formula}\n"
        + "        while True:\n            wait\n"
    )


def all_traces(names, n, alphabet=(False, True)):
    for vals in itertools.product(itertools.product(alphabet, repeat=len(names)), repeat=n):
        yield [dict(zip(names, v)) for v in vals]


def run_one(scenario, site, trace, names):
    """Run the implementation on one trace; returns ("accepted",) | ("rejected", t) | ("error", ...)."""
    from scenic.core.distributions import RejectionException

    start = 1 if site.endswith("1") else 0
    n = len(trace)
    T = start + n - 1  # absolute time of the last position
    tables = {}
    for name in names:
        # before the window the atoms are true/false alternately -- they must not matter
        pad = [True] * start
        tables[name] = pad + [st[name] for st in trace] + [trace[-1][name]]
    tables["K"] = [n - 1]
    dyn.probe.STATE.reset(tables=tables)
    try:
        scene, _ = scenario.generate(maxIterations=2)
    except RejectionException:
        return ("rejected", 0)
    maxSteps = T if not site.startswith("setup") else T + 3
    if maxSteps == 0:
        maxSteps = None  # maxSteps=0 means "no limit" to the API: use a scenario limit instead
        res = dyn.simulate(scene, tables=dict(tables, __stop=[True]), maxSteps=1, timestep=1)
        # a run of exactly one position: emulate with `terminate simulation when` unavailable;
        # handled by the caller (n == 1 at top/compose0 is run with maxSteps=1 and judged on 2 positions)
        return ("skip",)
    res = dyn.simulate(scene, tables=tables, maxSteps=maxSteps, timestep=1)
    o = res["outcome"]
    if o[0] == "done":
        if o[2] != T:
            return ("error", "ended at", o[2], "expected", T)
        return ("accepted",)
    if o[0] == "rejected":
        return ("rejected", o[1])
    return ("error",) + tuple(o)


def judge(f, trace, names, verdict, start):
    """None if the verdict is what the property demands, else (signature, text)."""
    n = len(trace)
    sat = fltl.holds(f, trace, 0)
    if verdict[0] == "error":
        return ("error", f"{verdict}")
    if verdict[0] == "accepted":
        if not sat:
            return ("accepted-violating-trace", "trace does not satisfy the formula but the simulation was accepted")
        return None
    t = verdict[1] - start  # position at which it was rejected
    if sat:
        return ("rejected-satisfying-trace", f"trace satisfies the formula but was rejected at step {verdict[1]}")
    if t < n - 1:
        # early rejection: only if no continuation can satisfy
        if t < 0:
            return ("rejected-before-start", f"rejected at step {verdict[1]} before the requirement took effect")
        prefix = trace[: t + 1]
        if fltl.some_continuation_satisfies(f, prefix, names, fltl.next_depth(f) + 2):
            return ("early-rejection-unsound", f"rejected at step {verdict[1]} although a continuation of the prefix satisfies the formula")
    # `always <non-temporal>`: must reject at once
    if f[0] == "always" and not fltl.is_temporal(f[1]):
        first = next(i for i in range(n) if not fltl.holds(f[1], trace, i))
        if t != first:
            return ("always-not-rejected-at-once", f"always of a non-temporal condition false at position {first} but rejected at position {t}")
    return None


import contextlib


@contextlib.contextmanager
def corrected_until():
    """Substitute a corrected rv_ltl UntilMonitor._evaluate_at (the dependency's version
    conjoins lhs over range(i, min(i + k, last)) instead of range(i, k), which is wrong
    for an `until` evaluated at an offset i > 0)."""
    import rv_ltl.monitor as m
    from rv_ltl import B4

    def _evaluate_at(self, i=0):
        for k in range(i, self._last_index + 1):
            v = self.rhs._evaluate_at(k)
            if not v.is_truthy:
                continue
            result = v
            for j in range(i, k):
                result = result & self.lhs._evaluate_at(j)
            return result
        return B4.PRESUMABLY_FALSE

    old = m.UntilMonitor._evaluate_at
    m.UntilMonitor._evaluate_at = _evaluate_at
    try:
        yield
    finally:
        m.UntilMonitor._evaluate_at = old


def attribute(f, scenario, site, trace, names, start, sig):
    """Known-finding attribution by differential substitution."""
    if sig in ("rejected-satisfying-trace", "early-rejection-unsound") and until_offset_bug(f):
        with corrected_until():
            v2 = run_one(scenario, site, trace, names)
        if judge(f, trace, names, v2, start) is None:
            return sig + ":rv_ltl-until-at-offset"
    return sig


def until_offset_bug(f):
    """Signature helper: formula has an `until` below another temporal operator (evaluated at offset > 0)."""

    def rec(g, under):
        if g[0] == "until" and under:
            return True
        u = under or g[0] in ("always", "eventually", "next", "until")
        return any(rec(h, u) for h in g[1:] if isinstance(h, tuple))

    return rec(f, False)


def check_formula(item):
    idx, text, f, sites, lengths = item
    if lengths == "values":
        return check_values(item)
    names = fltl.atoms(f)
    out = {"idx": idx, "runs": 0, "violations": [], "acc": 0, "rej": 0, "early": 0, "states": 0}
    for site in sites:
        src = program(text, site)
        try:
            dyn.probe.STATE.reset(tables={n: [True] for n in names} | {"K": [1]})
            scenario = dyn.compile_scenario(src)
        except Exception as e:  # noqa: BLE001
            out["violations"].append((f"compile:{type(e).__name__}", f"{e!r}\n{src}", {"idx": idx, "text": text, "f": f, "site": site, "kind": "compile"}))
            continue
        start = 1 if site.endswith("1") else 0
        for n in lengths:
            if n == 1 and start == 0 and not site.startswith("setup"):
                continue  # a run with a single position needs maxSteps=0 (= unlimited in the API)
            for trace in all_traces(names, n):
                v = run_one(scenario, site, trace, names)
                if v[0] == "skip":
                    continue
                out["runs"] += 1
                out["states"] += n
                if v[0] == "accepted":
                    out["acc"] += 1
                elif v[0] == "rejected":
                    out["rej"] += 1
                    if v[1] - start < n - 1:
                        out["early"] += 1
                bad = judge(f, trace, names, v, start)
                if bad is not None:
                    sig, why = bad
                    sig = attribute(f, scenario, site, trace, names, start, sig)
                    out["violations"].append(
                        (sig, f"{why}\nformula: {text}\nsite: {site}\ntrace: {[tuple(int(bool(s[x])) for x in names) for s in trace]} (atoms {names})\nverdict: {v}", {"idx": idx, "text": text, "f": f, "site": site, "trace": trace, "kind": "run"})
                    )
                    if len(out["violations"]) > 6:
                        return out
    return out


VALUES = (0, 1, 2, "", "x")


def value_program(text, site):
    head = "import verif_probe as probe\n"
    if site == "behavior":
        return head + f'behavior B():\n    require {text}\n    take probe.Act("ok")\nego = new Object with name "A1", with behavior B()\n'
    if site == "termwhen":
        return head + f'ego = new Object with name "A1"\nterminate when {text}\n'
    if site == "monitor":
        return head + f'monitor M():\n    require {text}\n    wait\nego = new Object with name "A1"\nrequire monitor M()\n'
    raise ValueError(site)


def check_values(item):
    """Non-temporal formulas evaluated at run time over non-boolean atom values: and / or /
    not / implies must have their ordinary (truthiness) meaning."""
    idx, text, f, sites, _ = item
    names = fltl.atoms(f)
    out = {"idx": idx, "runs": 0, "violations": [], "acc": 0, "rej": 0, "early": 0, "states": 0}
    for site in sites:
        if site == "termwhen" and "implies" in text:
            continue  # `implies` is only documented inside `require`
        src = value_program(text, site)
        try:
            dyn.probe.STATE.reset(tables={n: [True] for n in names})
            scenario = dyn.compile_scenario(src)
            scene, _ = scenario.generate(maxIterations=2)
        except Exception as e:  # noqa: BLE001
            out["violations"].append((f"compile:{type(e).__name__}", f"{e!r}\n{src}", {"idx": idx, "text": text, "f": f, "site": site, "kind": "vcompile"}))
            continue
        for vals in itertools.product(VALUES, repeat=len(names)):
            state = dict(zip(names, vals))
            tables = {n: [v] for n, v in state.items()}
            res = dyn.simulate(scene, tables=tables, maxSteps=2, timestep=1)
            out["runs"] += 1
            out["states"] += 1
            want = bool(fltl.python_value(f, state))
            o = res["outcome"]
            if site == "termwhen":
                got = o[0] == "done" and o[1] == "scenarioComplete" and o[2] == 0
                ok_shape = o[0] == "done"
            else:
                got = o[0] == "done"
                ok_shape = o[0] in ("done", "rejected")
            out["acc" if got else "rej"] += 1
            if not ok_shape or got != want:
                sig = "nontemporal-value-semantics:" + ("error:" + str(o[1]) if o[0] == "error" else f[0])
                out["violations"].append((sig, f"formula {text} at site {site} with atom values {state}: Python truthiness gives {want}, observed outcome {o}", {"idx": idx, "text": text, "f": f, "site": site, "state": state, "kind": "values"}))
                if len(out["violations"]) > 6:
                    return out
    return out


def nontemporal_formulas(depth):
    return [f for f in gl.formulas(depth) if not fltl.is_temporal(f)]


def plan(tier):
    items = []
    if tier == "quick":
        fs = [f for f in gl.formulas(2) if _size(f) <= 4 or f[0] in gl.UN]
        lengths = (1, 2, 3)
    else:
        fs = gl.formulas(2)
        lengths = (1, 2, 3, 4)
    idx = 0
    for f in fs:
        sites = SITES if (tier == "thorough" and _size(f) <= 4) or _size(f) <= 3 else ("top",)
        items.append((idx, gl.render(f), f, sites, lengths))
        idx += 1
    for tmpl, f in gl.DOC_PRECEDENCE:
        text = tmpl.format(a='probe.cond("a")', b='probe.cond("b")')
        items.append((idx, text, f, ("top", "setup0"), lengths))
        idx += 1
    for f in nontemporal_formulas(2 if tier == "thorough" else 1) + ([("and", ("or", ("ap", "a"), ("ap", "b")), ("ap", "a")), ("implies", ("and", ("ap", "a"), ("ap", "b")), ("ap", "b")), ("not", ("and", ("ap", "a"), ("ap", "b")))] if tier == "quick" else []):
        if f[0] == "ap":
            continue
        items.append((idx, gl.render(f), f, ("behavior", "termwhen", "monitor"), "values"))
        idx += 1
    return items


def _size(f):
    return 1 + sum(_size(g) for g in f[1:] if isinstance(g, tuple))


def run(ctx):
    items = ctx.rotate(plan(ctx.tier))
    tot = {"runs": 0, "acc": 0, "rej": 0, "early": 0, "states": 0}
    for r in ctx.pmap(check_formula, items, chunksize=2):
        for k in tot:
            tot[k] += r[k]
        for sig, desc, case in r["violations"]:
            ctx.violation(sig, desc, case)
    if tot["acc"] == 0 or tot["rej"] == 0 or tot["early"] == 0:
        raise HarnessError(f"vacuous: {tot}")
    ctx.cov.update(
        states=tot["states"],
        transitions=tot["states"],
        traces_validated_against_impl=tot["runs"],
        evaluations=tot["runs"],
        programs=len(items),
        distinct_nontrivial=tot["early"],
        rule="formulas of depth <= 2 over atoms {a,b} (fully parenthesised; quick: size <= 4 or unary at the top) plus the unparenthesised forms of "
        "the reference x all 2^(atoms*n) truth traces for every length n in the bound x declaration sites; states/transitions = trace positions "
        "monitored; non-trivial = runs rejected before the end (early verdicts checked by brute force over all continuations)",
        samples=[{"formula": items[i][1], "sites": list(items[i][3])} for i in (0, len(items) // 2, len(items) - 1)],
        collisions={"accepted": tot["acc"], "rejected": tot["rej"], "rejected_before_end": tot["early"]},
        bounds={"depth": 2, "trace_lengths": [n for n in (1, 2, 3, 4) if ctx.tier == "thorough" or n < 4], "value_alphabet": [repr(v) for v in VALUES], "continuation_search": "next-depth + 2 extra states"},
    )
    ctx.assumptions.append("atoms are side-effect free functions of the time step; trace positions are the steps at which the scenario is stepped (start..end inclusive)")


def replay(ctx, case):
    f = _tup(case["f"])
    names = fltl.atoms(f)
    if case["kind"] in ("values", "vcompile"):
        r = check_values((case["idx"], case["text"], f, (case["site"],), "values"))
        for sig, desc, c in r["violations"]:
            if case["kind"] == "vcompile" or c.get("state") == case.get("state"):
                ctx.violation(sig, desc, c)
        return
    if case["kind"] == "compile":
        r = check_formula((case["idx"], case["text"], f, (case["site"],), ()))
        for sig, desc, c in r["violations"]:
            ctx.violation(sig, desc, c)
        return
    site = case["site"]
    dyn.probe.STATE.reset(tables={n: [True] for n in names} | {"K": [1]})
    scenario = dyn.compile_scenario(program(case["text"], site))
    start = 1 if site.endswith("1") else 0
    v = run_one(scenario, site, case["trace"], names)
    bad = judge(f, case["trace"], names, v, start)
    if bad is not None:
        sig, why = bad
        sig = attribute(f, scenario, site, case["trace"], names, start, sig)
        ctx.violation(sig, f"{why}\nformula {case['text']} site {site} trace {case['trace']} verdict {v}", case)


def _tup(x):
    if isinstance(x, list):
        return tuple(_tup(y) for y in x)
    return x
