"""C12 — simulation steps run in the documented order and stop at the documented step.

All programs of the core dynamic fragment (gen/dynamic.py c12_programs) x all truth
tables of their conditions with <= D conditions ever firing x time steps / step limits x
all agent schedules (deviation bounded) are executed on the real simulator loop with a
scripted simulator, and the complete event trace + result is compared with the reference
step machine (models/stepmachine.py) written from docs/reference/dynamic_scenarios.rst.
"""

import hashlib
import itertools

from mc import dyn, dyncmp, explorer
from mc.explorer import HarnessError
from gen import dynamic as gd

ID = "C12"
LEVEL = "model_checking"

HORIZON = 5
RERUN_TABLES = 3


def sim_variants(tier):
    if tier == "quick":
        return [dict(timestep=1, maxSteps=5), dict(timestep=0.5, maxSteps=4)]
    return [dict(timestep=1, maxSteps=6), dict(timestep=0.5, maxSteps=5), dict(timestep=0.25, maxSteps=7), dict(timestep=1, maxSteps=2)]


def tables_for(prog, tier, two):
    names = [c for c in gd.conditions_of(prog) if c != "never"]
    seen = set()

    def emit(gen):
        for t in gen:
            key = tuple(sorted((k, tuple(v)) for k, v in t.items()))
            if key in seen:
                continue
            seen.add(key)
            t = dict(t)
            t["never"] = [False]
            yield t

    modular = bool(prog.get("main"))
    if tier == "quick":
        yield from emit(gd.fire_tables(names, HORIZON, 1 if two or modular else 2, ("step",), (0, 1, 3)))
    else:
        # every single condition firing at every step (step and pulse shapes), and every pair of
        # conditions firing at steps 0, 1, 3
        yield from emit(gd.fire_tables(names, HORIZON, 1, ("step", "pulse"), (0, 1, 2, 3, 4)))
        if not two:
            yield from emit(gd.fire_tables(names, HORIZON, 2, ("step",), (0, 1, 3)))


def run_case(scene, prog, tables, var, schedule, raise_guards=False):
    p = dict(prog, timestep=var["timestep"], maxSteps=var["maxSteps"])
    res = dyn.simulate(scene, tables=tables, schedule=schedule, maxSteps=var["maxSteps"], timestep=var["timestep"], raiseGuardViolations=raise_guards)
    sched = res.get("schedule", [])
    diff = dyncmp.compare(res, p, tables, schedule=sched, raise_guards=raise_guards)
    return res, diff


def check_program(item):
    idx, prog, tier = item
    out = {"idx": idx, "runs": 0, "violations": [], "prefixes": set(), "edges": 0, "types": {}, "sched_dev": 0}
    text = gd.render(prog)
    try:
        sc = dyn.compile_scenario(text, **({"scenario": prog["main"]} if prog.get("main") else {}))
        scene, _ = sc.generate(maxIterations=5)
    except Exception as e:  # noqa: BLE001
        out["violations"].append((f"compile:{type(e).__name__}", f"program of the fragment does not compile: {e!r}\n{text}", {"idx": idx, "prog": prog, "tier": tier, "kind": "compile"}))
        return _pack(out)
    two = len(prog["agents"]) > 1
    variants = sim_variants(tier)
    jobs = [(vi, var, None) for vi, var in enumerate(variants)]
    if tier == "quick":
        # quick: the two (timestep, maxSteps) variants alternate over the enumeration; the other
        # variant is then run on the SAME scene (a non-initial state: the scenario object has
        # been simulated with another time step before) for the first RERUN_TABLES tables
        k = idx % 2
        jobs = [(k, variants[k], None), (1 - k, variants[1 - k], RERUN_TABLES)]
    first = None
    for vi, var, limit in jobs:
        for ti, tables in enumerate(itertools.islice(tables_for(prog, tier, two), limit)):
            if first is None:
                first = {"var": var, "tables": tables}
            prior = first if first["var"] != var else None
            if limit is not None:
                out["reruns"] = out.get("reruns", 0) + 1
            if two:
                # every schedule the simulator may return, at most 2 steps with a non-default permutation
                def once():
                    return run_case(scene, prog, tables, var, "explore")

                runs = [(ex, r) for ex, r, st in explorer.explore(once, bound=2)]
            else:
                runs = [(None, run_case(scene, prog, tables, var, None))]
            for ex, (res, diff) in runs:
                out["runs"] += 1
                o = res["outcome"]
                key = o[1] if o[0] == "done" else o[0]
                out["types"][key] = out["types"].get(key, 0) + 1
                if ex is not None and ex.deviations:
                    out["sched_dev"] += 1
                # history tree bookkeeping
                h = hashlib.sha1(f"{idx}|{vi}".encode())
                last_t = None
                for t, e in dyn.normalize_log(res["log"]):
                    if t != last_t and last_t is not None:
                        out["prefixes"].add(h.copy().digest()[:8])
                        out["edges"] += 1
                    h.update(repr(e).encode())
                    last_t = t
                out["prefixes"].add(h.digest()[:8])
                if diff is not None:
                    sig = f"{diff['kind']}-mismatch"
                    if prog.get("main") and "tws" in gd.conditions_of(prog):
                        p2 = dict(prog, timestep=var["timestep"], maxSteps=var["maxSteps"])
                        if dyncmp.compare(res, p2, tables, schedule=res.get("schedule", []), variant={"subscenario_tw_is_requirement"}) is None:
                            sig = "subscenario-setup-terminate-when-registered-as-requirement"
                    out["violations"].append(
                        (
                            sig,
                            f"implementation and reference step machine disagree ({diff})\nvariant={var} tables={ {k: v for k, v in tables.items() if any(v)} } schedule={res.get('schedule')}\n{text}",
                            {"idx": idx, "prog": prog, "tier": tier, "var": var, "tables": tables, "schedule": res.get("schedule"), "kind": "run", "prior": prior},
                        )
                    )
                    if len(out["violations"]) > 5:
                        return _pack(out)
    return _pack(out)


def _pack(out):
    out["states"] = len(out.pop("prefixes"))
    out["nontrivial"] = 1 if len(out["types"]) >= 2 else 0
    return out


def run(ctx):
    items = [(idx, prog, ctx.tier) for idx, prog in gd.c12_programs(ctx.tier)]
    items += [(idx, prog, ctx.tier) for idx, prog in gd.c12_modular_programs(ctx.tier, start_index=len(items))]
    items = ctx.rotate(items)
    runs = states = edges = progs = sched_dev = nontrivial = reruns = 0
    types = {}
    for r in ctx.pmap(check_program, items, chunksize=4):
        progs += 1
        runs += r["runs"]
        states += r["states"]
        edges += r["edges"]
        sched_dev += r["sched_dev"]
        nontrivial += r.get("nontrivial", 0)
        reruns += r.get("reruns", 0)
        for k, v in r["types"].items():
            types[k] = types.get(k, 0) + v
        for sig, desc, case in r["violations"]:
            ctx.violation(sig, desc, case)
    need = ["scenarioComplete", "timeLimit", "simulationTerminationCondition", "terminatedByMonitor", "terminatedByBehavior", "rejected"]
    missing = [k for k in need if not types.get(k)]
    if missing and not ctx.violations:
        raise HarnessError(f"vacuous: termination kinds never observed: {missing}")
    if sched_dev == 0 and not ctx.violations:
        raise HarnessError("vacuous: no run with a non-default agent schedule")
    samples = [{"program": gd.render(items[i][1]), "index": items[i][0]} for i in (0, len(items) // 2)]
    ctx.cov.update(
        states=states,
        transitions=edges,
        traces_validated_against_impl=runs,
        evaluations=runs,
        programs=progs,
        distinct_nontrivial=nontrivial,
        rule="all behavior bodies up to the length bound over the statement alphabet x top-level termination constructs x "
        "truth tables with <=2 conditions firing (at every step 0..5) x timestep/maxSteps variants x all agent schedules with <=2 "
        "non-default permutations; states = distinct event-history prefixes at time-step boundaries, transitions = time steps "
        "executed; every run's full event trace and result is compared with the reference machine; distinct_nontrivial = programs "
        "whose explored runs end in at least two different ways (termination kind / rejection)",
        samples=samples,
        outcome_kinds=types,
        runs_with_nondefault_schedule=sched_dev,
        reruns_of_a_scene_with_another_timestep=reruns,
        bounds={"horizon": HORIZON, "table_deviation": 2, "schedule_deviation": 2, "variants": sim_variants(ctx.tier)},
    )
    ctx.assumptions += [
        "conditions are side-effect free functions of the time step (scripted truth tables)",
        "termination *type* for `terminate` executed by a behavior/monitor is not judged (reference text and TerminationType docs differ); the termination step is",
    ]


def replay(ctx, case):
    if case.get("kind") == "compile":
        r = check_program((case["idx"], case["prog"], case["tier"]))
        for sig, desc, c in r["violations"]:
            if sig.startswith("compile"):
                ctx.violation(sig, desc, c)
        return
    prog = _fix(case["prog"])
    text = gd.render(prog)
    sc = dyn.compile_scenario(text, **({"scenario": prog["main"]} if prog.get("main") else {}))
    scene, _ = sc.generate(maxIterations=5)
    sched = [tuple(p) if p is not None else None for p in (case.get("schedule") or [])]
    res, diff = run_case(scene, prog, case["tables"], case["var"], sched or None)
    if diff is None and case.get("prior"):
        # the violation needs history: the same scene was first simulated with other parameters
        sc = dyn.compile_scenario(text, **({"scenario": prog["main"]} if prog.get("main") else {}))
        scene, _ = sc.generate(maxIterations=5)
        run_case(scene, prog, case["prior"]["tables"], case["prior"]["var"], None)
        res, diff = run_case(scene, prog, case["tables"], case["var"], sched or None)
    if diff is not None:
        sig = f"{diff['kind']}-mismatch"
        if prog.get("main") and "tws" in gd.conditions_of(prog):
            p2 = dict(prog, timestep=case["var"]["timestep"], maxSteps=case["var"]["maxSteps"])
            if dyncmp.compare(res, p2, case["tables"], schedule=res.get("schedule", []), variant={"subscenario_tw_is_requirement"}) is None:
                sig = "subscenario-setup-terminate-when-registered-as-requirement"
        ctx.violation(sig, f"{diff}\n{text}", case)


def _fix(x):
    """JSON round trip turns tuples into lists; statements must be tuples again."""
    if isinstance(x, dict):
        return {k: _fix(v) for k, v in x.items()}
    if isinstance(x, list):
        if x and isinstance(x[0], str) and x[0] in ("take", "wait", "waitfor", "waituntil", "do", "dofor", "dountil", "choose", "shuffle", "terminate", "termsim", "require", "try", "loop", "if", "ev", "abort", "break", "continue", "return"):
            return tuple(_fix(v) for v in x)
        return [_fix(v) for v in x]
    return x
