"""C06 — specifier resolution follows the documented priorities, whatever the order.

Engine: bounded-exhaustive enumeration (gen/c06_gen.py) of all sub-multisets of built-in
specifier instances up to a size bound and EVERY permutation of each, over the built-in and
a family of user classes, in 3D and 2D mode; each permutation is resolved by the
implementation (through `new`, inside a live compilation of a small Scenic prelude, or as
compiled Scenic text) under a harness-side trace of `Specifier.getValuesFor`, and judged by
the reference resolver models/specres.py (written from docs/reference/specifiers.rst).

Oracles: (1) per property the predicted winner (+ modifier) supplied the final value, every
specifier was evaluated once and only after all the properties it depends on were final, or
the predicted kind of error was raised; (2) all permutations of a multiset have the same
outcome; (3) every built-in specifier instance has the documented priorities/dependencies.
"""

from __future__ import annotations

import math
import types

from mc.explorer import HarnessError
from models import specres as M
from gen import c06_gen as G

ID = "C06"
LEVEL = "model_checking"

RST = None  # set in _table()
TOL = 1e-9


# ---------------------------------------------------------------------------------
# lazily initialised, per process
# ---------------------------------------------------------------------------------
_TABLE = None


def _repo_docs():
    import scenic, pathlib

    root = pathlib.Path(scenic.__file__).resolve().parents[2]
    return root / "docs" / "reference" / "specifiers.rst"


def _table():
    global _TABLE
    if _TABLE is None:
        try:
            _TABLE = M.parse_table(_repo_docs())
            missing = [t for t in M.ALL_TITLES if t not in _TABLE]
            if missing:
                raise M.DocError(f"rows not found: {missing}")
        except M.DocError as e:
            raise HarnessError(f"specifiers.rst not readable as a table: {e}")
    return _TABLE


# ---------------------------------------------------------------------------------
# running things inside a live compilation
# ---------------------------------------------------------------------------------
class _Done(Exception):
    pass


_JOB = None  # callable(ns) run by the prelude's last line
_JOB_RESULT = None


def _hook(ns):
    """Called by the last line of the prelude, veneer active, classes and entities defined."""
    global _JOB_RESULT
    _JOB_RESULT = _JOB(ns)
    raise _Done


def in_veneer(mode2D, job, extra_text=""):
    """Compile prelude(+extra_text) in the given mode and run job(namespace) at its end."""
    import scenic

    global _JOB, _JOB_RESULT
    _JOB, _JOB_RESULT = job, None
    text = G.prelude(mode2D) + extra_text + "c06mod._hook(globals())\n"
    try:
        scenic.scenarioFromString(text, mode2D=mode2D)
    except _Done:
        pass
    else:
        raise HarnessError("prelude finished without reaching the hook")
    finally:
        _JOB = None
    return _JOB_RESULT


# ---------------------------------------------------------------------------------
# value comparison
# ---------------------------------------------------------------------------------
def _is_random(v):
    from scenic.core.distributions import needsSampling

    try:
        return needsSampling(v)
    except Exception:
        return False


_ANGLES = ("yaw", "pitch", "roll")


def _angle_eq(a, b):
    d = (a - b) % math.tau
    return min(d, math.tau - d) <= 1e-9


def same(a, b, prop=None, mode2D=False, depth=0):
    """Semantic equality of two property values (numbers within 1e-9, structural for
    random values: same kind of distribution over the same arguments)."""
    from scenic.core.vectors import Vector, Orientation
    from scenic.core.regions import Region

    if a is b:
        return True
    if depth > 40:
        return False
    ra, rb = _is_random(a), _is_random(b)
    if ra != rb:
        return False
    if ra:
        if type(a) is not type(b):
            return False
        va, vb = object.__getattribute__(a, "__dict__"), object.__getattribute__(b, "__dict__")
        for attr in ("operator", "attribute", "method", "function", "tag", "region"):
            x, y = va.get(attr), vb.get(attr)  # (getattr would build an AttributeDistribution)
            if callable(x) and callable(y):
                x, y = getattr(x, "__qualname__", x), getattr(y, "__qualname__", y)
            if not (x is y or same(x, y, depth=depth + 1)):
                return False
        da, db = a._dependencies, b._dependencies
        return len(da) == len(db) and all(same(x, y, depth=depth + 1) for x, y in zip(da, db))
    if isinstance(a, bool) or isinstance(b, bool):
        return a == b
    if isinstance(a, Region) and isinstance(b, Region):
        # regions built afresh by a specifier from the same operands (e.g. workspace - view)
        if type(a) is not type(b):
            return False
        for attrs in (("regionA", "regionB"), ("regions",)):
            if all(hasattr(a, x) and hasattr(b, x) for x in attrs):
                return all(same(getattr(a, x), getattr(b, x), depth=depth + 1) for x in attrs)
        return a == b
    if isinstance(a, (int, float)) and isinstance(b, (int, float)):
        if prop in _ANGLES:
            return _angle_eq(a, b)
        return abs(a - b) <= TOL * max(1.0, abs(a), abs(b))
    if isinstance(a, Orientation) or isinstance(b, Orientation):
        from scenic.core.type_support import toOrientation

        try:
            qa, qb = toOrientation(a).q, toOrientation(b).q
        except Exception:
            return False
        return all(abs(x - y) <= 1e-9 for x, y in zip(qa, qb)) or all(abs(x + y) <= 1e-9 for x, y in zip(qa, qb))
    if isinstance(a, Vector) or isinstance(b, Vector):
        try:
            ta, tb = tuple(a), tuple(b)
        except Exception:
            return False
        ta = tuple(ta) + (0,) * (3 - len(ta))
        tb = tuple(tb) + (0,) * (3 - len(tb))
        n = 2 if (mode2D and prop == "position") else 3
        return all(isinstance(x, (int, float)) and isinstance(y, (int, float)) and abs(x - y) <= TOL * max(1.0, abs(x), abs(y)) for x, y in zip(ta[:n], tb[:n]))
    if isinstance(a, (tuple, list)) and isinstance(b, (tuple, list)):
        return len(a) == len(b) and all(same(x, y, depth=depth + 1) for x, y in zip(a, b))
    if isinstance(a, dict) and isinstance(b, dict):
        return a.keys() == b.keys() and all(same(a[k], b[k], depth=depth + 1) for k in a)
    try:
        return bool(a == b)
    except Exception:
        return False


def supplied_matches(final, supplied, prop, mode2D):
    """Does the final value of `prop` equal what a specifier supplied for it, up to the
    documented normalisations (vectors, angles mod 2pi, orientations, footprints of 2D
    regions for regionContainedIn)?"""
    if same(final, supplied, prop, mode2D):
        return True
    if prop == "regionContainedIn":
        fp = getattr(supplied, "footprint", None)
        return fp is not None and same(final, fp)
    if _is_random(final):
        # e.g. normalizeAngle(<random yaw>), toVector(<random>): the supplied value must be
        # what the final value is computed from
        seen = set()
        stack = [final]
        while stack:
            x = stack.pop()
            if id(x) in seen:
                continue
            seen.add(id(x))
            if x is supplied or (x is not final and same(x, supplied, prop, mode2D)):
                return True
            stack.extend(getattr(x, "_dependencies", ()))
        return False
    return False


def show(v):
    s = repr(v)
    return s if len(s) <= 80 else s[:77] + "..."


# ---------------------------------------------------------------------------------
# observing one resolution
# ---------------------------------------------------------------------------------
class Obs:
    __slots__ = ("status", "kind", "exc", "events", "final", "specs")

    def __init__(self):
        self.status = None
        self.kind = None
        self.exc = None
        self.events = []  # (spec object, snapshot dict, returned dict)
        self.final = None
        self.specs = None


def classify_exception(e):
    from scenic.core.errors import SpecifierError

    msg = str(e)
    if isinstance(e, SpecifierError):
        if "specifier to modify itself" in msg or "specified twice with the same priority" in msg:
            return M.AMBIGUOUS
        if "cannot be directly specified" in msg:
            return M.FINAL
        if "depends on itself" in msg:
            return M.CYCLIC
        if "is not specified" in msg and "required by" in msg:
            return M.MISSING
        if "modified twice" in msg:
            return M.MODIFIED_TWICE
        return "other:SpecifierError"
    if isinstance(e, TypeError) and 'Cannot use modifying "on V" with V a vector' in msg:
        return M.ON_VECTOR
    if isinstance(e, NotImplementedError) and 'does not yet support projection using "on"' in msg:
        return M.NO_PROJECTION
    return "other:" + type(e).__name__


class Tracer:
    """Harness-side trace of one object creation: wraps Specifier.getValuesFor for the
    duration of a case, records (specifier, properties already set, values returned)."""

    active = None

    def __init__(self):
        self.obs = Obs()
        self.orig = None
        self.marks = None

    def start(self):
        from scenic.core.specifiers import Specifier
        import scenic.syntax.veneer as veneer

        if Tracer.active is not None:
            raise HarnessError("tracer already active")
        obs = self.obs
        orig = self.orig = Specifier.__dict__["getValuesFor"]

        def traced(spec, context):
            snap = dict(context.__dict__)
            snap.pop("_evaluated", None)
            ret = orig(spec, context)
            obs.events.append((spec, snap, dict(ret)))
            return ret

        cs = veneer.currentScenario
        self.marks = (cs, len(cs._instances), len(cs._objects), len(cs._agents))
        Specifier.getValuesFor = traced
        Tracer.active = self

    def stop(self):
        from scenic.core.specifiers import Specifier

        if Tracer.active is self:
            Specifier.getValuesFor = self.orig
            cs, a, b, c = self.marks
            del cs._instances[a:], cs._objects[b:], cs._agents[c:]
            Tracer.active = None

    def ok(self, obj):
        self.stop()
        self.obs.status = "ok"
        self.obs.final = {p: getattr(obj, p) for p in obj.properties}
        return self.obs

    def error(self, e):
        self.stop()
        if isinstance(e, (_Done, HarnessError)):
            raise e
        self.obs.status = "error"
        self.obs.kind = classify_exception(e)
        self.obs.exc = f"{type(e).__name__}: {e}"
        return self.obs


def observe(thunk):
    """Run thunk() (which creates one object) under the trace."""
    tr = Tracer()
    tr.start()
    try:
        obj = thunk()
    except Exception as e:
        return tr.error(e)
    finally:
        tr.stop()
    return tr.ok(obj)


# -- the same through compiled Scenic text -------------------------------------------
_TEXT = {"obs": {}, "cur": None, "specs": None}


def _t_begin(ns):
    """Route `new` of the compiled program through a recorder of the specifier list."""
    orig_new = ns["new"]

    def new(cls, specifiers):
        _TEXT["specs"] = list(specifiers)
        return orig_new(cls, specifiers)

    ns["new"] = new
    _TEXT["obs"] = {}


def _t_start(i):
    tr = Tracer()
    _TEXT["cur"] = (i, tr)
    _TEXT["specs"] = None
    tr.start()


def _t_ok(obj):
    i, tr = _TEXT["cur"]
    obs = tr.ok(obj)
    obs.specs = _TEXT["specs"]
    _TEXT["obs"][i] = obs


def _t_err(e):
    i, tr = _TEXT["cur"]
    obs = tr.error(e)
    obs.specs = _TEXT["specs"]
    _TEXT["obs"][i] = obs


def text_program(cases):
    """cases: [(class name, permutation of instance keys)] -> Scenic source."""
    lines = ["c06mod._t_begin(globals())"]
    for i, (cls, perm) in enumerate(cases):
        specs = ", ".join(G.INSTS[k].text for k in perm)
        lines += [
            f"c06mod._t_start({i})",
            "try:",
            f"    _o = new {cls} {specs}".rstrip(),
            "except Exception as _e:",
            "    c06mod._t_err(_e)",
            "else:",
            "    c06mod._t_ok(_o)",
        ]
    return "\n".join(lines) + "\n"


# ---------------------------------------------------------------------------------
# the model side of one case
# ---------------------------------------------------------------------------------
def raw_chain(cls):
    """Per-class declarations, most derived first, read from the classes themselves
    (not from the merged cls._defaults)."""
    from scenic.core.object_types import Constructible
    from scenic.core.specifiers import PropertyDefault

    chain = []
    for sc in cls.__mro__:
        if isinstance(sc, type) and issubclass(sc, Constructible) and "_scenic_properties" in sc.__dict__:
            decls = {}
            for prop, v in sc.__dict__["_scenic_properties"].items():
                if isinstance(v, PropertyDefault):
                    decls[prop] = M.Decl(frozenset(v.requiredProperties), v.isFinal, v.isAdditive, v.isDynamic)
                else:
                    decls[prop] = M.Decl(frozenset())
            chain.append((sc.__name__, decls))
    return chain


_CLASSINFO = {}


def class_info(ns, clsname, mode2D):
    """(merged defaults of the model, documented finals, violations of the class plumbing)."""
    key = (id(ns), clsname)
    if key in _CLASSINFO:
        return _CLASSINFO[key]
    cls = ns[clsname]
    chain = raw_chain(cls)
    problems = []
    # user classes: the declarations must be the ones written in the prelude
    names = [n for n, _ in chain]
    decl_chain = []
    for name, decls in chain:
        base = name[:-2] if name.endswith("2D") else name
        if base in G.CLASSDEFS and name == base:
            want = G.class_decls(G.CLASSDEFS[base], mode2D)
            for prop in sorted(set(want) | set(decls)):
                w, g = want.get(prop), decls.get(prop)
                if w is None or g is None or (w.deps, w.final, w.additive, w.dynamic) != (g.deps, g.final, g.additive, g.dynamic):
                    problems.append((f"class-declaration:{base}:{prop}", f"class {base} in mode2D={mode2D}: property {prop} declared as {w}, compiled as {g}"))
            decl_chain.append(want)
        else:
            decl_chain.append(decls)
    merged = M.merge_defaults(decl_chain)
    finals = set()
    for sc in cls.__mro__:
        finals |= M.documented_finals(sc.__dict__.get("__doc__") or "")
    info = (merged, frozenset(finals), problems, names)
    _CLASSINFO[key] = info
    return info


def model_outcome(ns, clsname, mode2D, keys):
    merged, finals, _, names = class_info(ns, clsname, mode2D)
    oriented = any(n.startswith("OrientedPoint") for n in names)
    sems = [M.semantics(_table(), G.INSTS[k].desc, mode2D, oriented) for k in keys]
    return sems, M.resolve(sems, merged, finals)


# ---------------------------------------------------------------------------------
# judging one observed resolution against the model
# ---------------------------------------------------------------------------------
def node_name(node, keys):
    return f"default({node[1]})" if isinstance(node, tuple) else f"`{G.INSTS[keys[node]].text}`"


def judge(ns, clsname, mode2D, keys, specs, obs, sems, out, stats):
    """-> list of (signature, message).  keys: the written order; out: model outcome of the
    multiset (indices refer to `keys`)."""
    v = []
    if obs.status == "error":
        if obs.kind == M.NO_PROJECTION and not out.errors and out.may_refuse_projection:
            # resolution chose the modifying `on` as predicted; the region type then refused
            stats["projection_refused"] += 1
            return v
        if not out.errors:
            v.append((f"unexpected-error:{obs.kind}", f"expected success, got {obs.exc}"))
        elif obs.kind not in out.errors:
            v.append((f"error-kind:{'+'.join(sorted(out.errors))}-vs-{obs.kind}", f"expected error {sorted(out.errors)} ({out.detail}), got {obs.exc}"))
        return v
    if out.errors:
        v.append((f"missed-error:{'+'.join(sorted(out.errors))}", f"expected error {sorted(out.errors)} ({out.detail}), but the object was created"))
        return v

    merged = class_info(ns, clsname, mode2D)[0]
    # --- identify the evaluated specifiers --------------------------------------
    idmap = {id(s): i for i, s in enumerate(specs)}
    rewritten = [i for i, k in enumerate(keys) if k == "w_heading" and sems[i].form == M.T_FACING]
    ev_of = {}
    order = []
    for pos, (spec, snap, ret) in enumerate(obs.events):
        if id(spec) in idmap:
            node = idmap[id(spec)]
        elif spec.name == "PropertyDefault" and len(spec.priorities) == 1:
            node = (M.DEFAULT, next(iter(spec.priorities)))
        elif len(rewritten) == 1 and spec.name == "Facing":
            node = rewritten[0]  # porting.rst: `with heading X` is replaced with `facing X`
        else:
            v.append(("trace:unknown-specifier", f"unknown specifier evaluated: {spec}"))
            continue
        if node in ev_of:
            v.append(("evaluated-twice", f"{node_name(node, keys)} evaluated twice"))
        ev_of[node] = (pos, snap, ret)
        order.append(node)
    hidden = lambda n: isinstance(n, tuple) and n[1].startswith("_")  # internal properties
    expected_nodes = {n for n in out.deps if not hidden(n)}
    if {n for n in ev_of if not hidden(n)} != expected_nodes:
        miss = [node_name(n, keys) for n in expected_nodes - set(ev_of)]
        extra = [node_name(n, keys) for n in set(ev_of) - expected_nodes]
        v.append(("evaluated-set", f"specifiers evaluated differ from S + needed defaults: missing {miss}, unexpected {extra}"))
        return v

    final = obs.final
    # --- who determined each property -----------------------------------------------
    for prop, val in final.items():
        if prop.startswith("_"):
            continue
        w = out.winner.get(prop)
        if w is None:
            v.append((f"unexpected-property:{prop}", f"object has property {prop} which nothing specifies"))
            continue
        wnode = (M.DEFAULT, prop) if w == M.DEFAULT else w
        mnode = out.modifier.get(prop)
        supplier = mnode if mnode is not None else wnode
        pos, snap, ret = ev_of[supplier]
        tag = "default" if w == M.DEFAULT else G.INSTS[keys[w]].desc.title.split(" ")[0]
        if prop not in ret:
            v.append((f"winner:{prop}", f"{prop}: expected from {node_name(supplier, keys)}, which supplied only {sorted(ret)}"))
            continue
        if not supplied_matches(val, ret[prop], prop, mode2D):
            others = [node_name(n, keys) for n, (_, _, r) in ev_of.items() if n != supplier and prop in r and supplied_matches(val, r[prop], prop, mode2D)]
            v.append((f"winner:{prop}", f"{prop} = {show(val)}: expected the value of {node_name(supplier, keys)} = {show(ret[prop])}; matches {others or 'no evaluated specifier'}"))
            continue
        stats["props_judged"] += 1
        rivals = [n for n, (_, _, r) in ev_of.items() if n != supplier and prop in r]
        if rivals:
            if any(supplied_matches(val, ev_of[n][2][prop], prop, mode2D) for n in rivals if n != wnode or mnode is None):
                stats["indistinct"] += 1
            else:
                stats["winner_identified_by_value"] += 1
        wpos, wsnap, wret = ev_of[wnode]
        if mnode is not None:
            # the modifier saw the value of the specifying specifier
            if not (wpos < pos and prop in snap and supplied_matches(snap[prop], wret.get(prop), prop, mode2D)):
                v.append((f"modifier:{prop}", f"{prop}: {node_name(mnode, keys)} should modify the value {show(wret.get(prop))} of {node_name(wnode, keys)}, but saw {show(snap.get(prop, '<nothing>'))}"))
        elif prop in snap:
            v.append((f"modifier:{prop}", f"{prop}: {node_name(supplier, keys)} specifies it but found the value {show(snap[prop])} already there"))
        if prop in wsnap:
            v.append((f"modifier:{prop}", f"{prop}: specified by {node_name(wnode, keys)} after it already had a value"))
    for prop in out.winner:
        if prop not in final:
            v.append((f"missing-property:{prop}", f"property {prop} should exist"))

    # --- evaluation order: every dependency final when a specifier is evaluated --------
    for node, deps in out.deps.items():
        if node not in ev_of:
            continue  # default of an internal property
        pos, snap, ret = ev_of[node]
        for d in deps:
            stats["dep_edges"] += 1
            if d not in snap:
                v.append((f"order:{d}", f"{node_name(node, keys)} evaluated before its dependency {d} had a value"))
            elif not (snap[d] is final.get(d) or same(snap[d], final.get(d), d, mode2D)):
                v.append((f"order:{d}", f"{node_name(node, keys)} evaluated with {d} = {show(snap[d])}, but the final value is {show(final.get(d))}"))

    # --- defaults of user classes: value of the most derived class --------------------
    from scenic.core.vectors import Vector

    for prop, w in out.winner.items():
        if w != M.DEFAULT or prop not in merged or prop not in final:
            continue
        exprs = merged[prop].exprs
        if any(e is None for e in exprs):
            continue
        if any(_is_random(final.get(d)) for d in merged[prop].deps):
            continue
        selfns = types.SimpleNamespace(**final)
        vals = [eval(e, {"self": selfns, "__builtins__": {}}) for e in exprs]
        want = tuple(vals) if merged[prop].additive else vals[0]
        stats["default_values_judged"] += 1
        if not supplied_matches(final[prop], want, prop, mode2D):
            v.append((f"default-value:{prop}", f"{prop} = {show(final[prop])}, expected the default {show(want)} of the most derived class"))
    return v


# ---------------------------------------------------------------------------------
# one multiset: all permutations
# ---------------------------------------------------------------------------------
def outcomes_equal(a, b, mode2D):
    if a.status != b.status:
        return False, "one order fails, another does not"
    if a.status == "error":
        return (a.kind == b.kind), f"different errors: {a.exc} / {b.exc}"
    ka = {p for p in a.final if not p.startswith("_")}
    kb = {p for p in b.final if not p.startswith("_")}
    if ka != kb:
        return False, f"different property sets: {sorted(ka ^ kb)}"
    for p in sorted(ka):
        if not same(a.final[p], b.final[p], p, mode2D):
            return False, f"{p}: {show(a.final[p])} / {show(b.final[p])}"
    return True, ""


def new_stats():
    return dict(
        resolutions=0,
        props_judged=0,
        indistinct=0,
        winner_identified_by_value=0,
        dep_edges=0,
        default_values_judged=0,
        ok=0,
        multi_error=0,
        projection_refused=0,
        priority_conflict=0,
        modifier=0,
        kinds={},
    )


def build_specs(ns, keys):
    return [eval(G.INSTS[k].py, ns) for k in keys]


def run_multiset(ns, clsname, mode2D, ms, stats, text_obs=None):
    """-> list of (signature, message, perm).  One violation per signature."""
    cls = ns[clsname]
    sems, out = model_outcome(ns, clsname, mode2D, list(ms))
    perms = G.permutations(ms)
    results = []
    found = {}

    def report(sig, msg, perm):
        if sig not in found:
            found[sig] = (sig, msg, perm)

    shadow_only = out.errors == {M.AMBIGUOUS} and out.shadowed_tie and not out.top_tie
    for perm in perms:
        # model indices follow the written order: recompute for this order (the model
        # itself is order independent; checked below)
        psems, pout = model_outcome(ns, clsname, mode2D, list(perm))
        if pout.errors != out.errors or (
            not out.errors
            and {p: (perm[w] if w != M.DEFAULT else w) for p, w in pout.winner.items()} != {p: (ms[w] if w != M.DEFAULT else w) for p, w in out.winner.items()}
        ):
            raise HarnessError(f"reference resolver is order dependent on {perm}")
        for route in ("api", "text"):
            if route == "api":
                specs = build_specs(ns, perm)
                obs = observe(lambda: ns["new"](cls, specs))
            else:
                if text_obs is None or (clsname, perm) not in text_obs:
                    continue
                obs = text_obs[(clsname, perm)]
                specs = obs.specs
            stats["resolutions"] += 1
            if obs.status == "error" and obs.kind.startswith("other:"):
                pass
            for sig, msg in judge(ns, clsname, mode2D, list(perm), specs, obs, psems, pout, stats):
                if shadow_only and sig.startswith(("missed-error", "error-kind")):
                    continue  # reported once below as order dependence
                report(sig, f"[{route}] new {clsname} " + ", ".join(G.INSTS[k].text for k in perm) + f"  (mode2D={mode2D}): " + msg, perm)
            results.append((perm, route, obs))
    # order independence (differential)
    p0, r0, o0 = results[0]
    for perm, route, obs in results[1:]:
        eq, why = outcomes_equal(o0, obs, mode2D)
        if eq:
            continue
        if o0.status == obs.status == "error" and len(out.errors) > 1 and {o0.kind, obs.kind} <= out.errors:
            stats["multi_error"] += 1  # several documented errors apply; any of them is right
            continue
        if shadow_only:
            sig = "order-dependence:same-priority-tie"
        elif o0.status != obs.status:
            sig = "order-dependence:error-or-not"
        elif o0.status == "error":
            sig = "order-dependence:error-kind"
        else:
            sig = "order-dependence:values"
        t0 = ", ".join(G.INSTS[k].text for k in p0)
        t1 = ", ".join(G.INSTS[k].text for k in perm)
        d0 = o0.exc if o0.status == "error" else "object created"
        d1 = obs.exc if obs.status == "error" else "object created"
        report(sig, f"new {clsname} {t0} [{r0}] -> {d0}\nnew {clsname} {t1} [{route}] -> {d1}\n(mode2D={mode2D}) {why}; the reference says: " + (f"error {sorted(out.errors)}: {out.detail}" if out.errors else "no error"), perm)
    # counters
    if out.errors:
        for k in out.errors:
            stats["kinds"][k] = stats["kinds"].get(k, 0) + 1
    else:
        stats["ok"] += 1
        if out.priority_conflicts:
            stats["priority_conflict"] += 1
        if out.modifier:
            stats["modifier"] += 1
    return list(found.values()), out
