"""C06 — specifier resolution follows the documented priorities, whatever the order.

Engine: bounded-exhaustive enumeration (gen/c06_gen.py) of all sub-multisets of built-in
specifier instances up to a size bound and EVERY permutation of each, over the built-in and
a family of user classes, in 3D and 2D mode; each permutation is resolved by the
implementation (through `new`, inside a live compilation of a small Scenic prelude, or as
compiled Scenic text) under a harness-side trace of `Specifier.getValuesFor`, and judged by
the reference resolver models/specres.py (written from docs/reference/specifiers.rst).

Oracles: (1) per property the predicted winner (+ modifier) supplied the final value, every
specifier was evaluated once and only after all the properties it depends on were final, or
the predicted kind of error was raised; (2) all permutations of a multiset have the same
outcome; (3) every built-in specifier instance has the documented priorities/dependencies.
"""

from __future__ import annotations

import math
import re
import types

from mc.explorer import HarnessError
from models import specres as M
from gen import c06_gen as G

ID = "C06"
LEVEL = "model_checking"

TOL = 1e-9


# ---------------------------------------------------------------------------------
# lazily initialised, per process
# ---------------------------------------------------------------------------------
_TABLE = None


def _repo_docs():
    import scenic, pathlib

    root = pathlib.Path(scenic.__file__).resolve().parents[2]
    return root / "docs" / "reference" / "specifiers.rst"


def _table():
    global _TABLE
    if _TABLE is None:
        try:
            _TABLE = M.parse_table(_repo_docs())
            missing = [t for t in M.ALL_TITLES if t not in _TABLE]
            if missing:
                raise M.DocError(f"rows not found: {missing}")
        except M.DocError as e:
            raise HarnessError(f"specifiers.rst not readable as a table: {e}")
    return _TABLE


# ---------------------------------------------------------------------------------
# running things inside a live compilation
# ---------------------------------------------------------------------------------
class _Done(Exception):
    pass


class ClassUniverseFailure(Exception):
    """Defining the classes of a generated universe (or a statement after them) failed."""

    def __init__(self, exc):
        super().__init__(exc)
        self.exc = exc


class TextRouteFailure(Exception):
    """The compiled-text program died outside `new` (e.g. while building a specifier)."""

    def __init__(self, index, exc):
        super().__init__(index, exc)
        self.index, self.exc = index, exc


_JOB = None  # callable(ns) run by the prelude's last line
_JOB_RESULT = None


def _hook(ns):
    """Called by the last line of the prelude, veneer active, classes and entities defined."""
    global _JOB_RESULT
    _JOB_RESULT = _JOB(ns)
    raise _Done


# the class universe being compiled: group (base | chain | mi), tier, its class descriptions
_UNIVERSE = {"group": "base", "tier": "quick", "defs": dict(G.CLASSDEFS), "only": None}


def set_universe(group, tier, only_families=None):
    _UNIVERSE.update(group=group, tier=tier, defs=G.classdefs(group, tier), only=only_families)


def in_veneer(mode2D, job, extra_text=""):
    """Compile prelude(+extra_text) in the given mode and run job(namespace) at its end."""
    import scenic

    global _JOB, _JOB_RESULT
    _JOB, _JOB_RESULT = job, None
    text = G.prelude(mode2D, _UNIVERSE["group"], _UNIVERSE["tier"], _UNIVERSE["only"]) + extra_text + "c06mod._hook(globals())\n"
    try:
        scenic.scenarioFromString(text, mode2D=mode2D)
    except _Done:
        pass
    except HarnessError:
        raise
    except Exception as e:
        cur = _TEXT.get("cur")
        if extra_text and cur is not None:
            raise TextRouteFailure(cur[0], e)
        if _UNIVERSE["group"] != "base":
            raise ClassUniverseFailure(e)
        raise HarnessError(f"prelude does not compile (mode2D={mode2D}): {e!r}")
    else:
        raise HarnessError("prelude finished without reaching the hook")
    finally:
        _JOB = None
        if Tracer.active is not None:
            Tracer.active.stop()
    return _JOB_RESULT


# ---------------------------------------------------------------------------------
# value comparison
# ---------------------------------------------------------------------------------
def _is_random(v):
    from scenic.core.distributions import needsSampling

    try:
        return needsSampling(v)
    except Exception:
        return False


_ANGLES = ("yaw", "pitch", "roll")


def _angle_eq(a, b):
    d = (a - b) % math.tau
    return min(d, math.tau - d) <= 1e-9


def same(a, b, prop=None, mode2D=False, depth=0):
    """Semantic equality of two property values (numbers within 1e-9, structural for
    random values: same kind of distribution over the same arguments)."""
    from scenic.core.vectors import Vector, Orientation
    from scenic.core.regions import Region

    if a is b:
        return True
    if depth > 40:
        return False
    ra, rb = _is_random(a), _is_random(b)
    if ra != rb:
        return False
    if ra:
        if type(a) is not type(b):
            return False
        va, vb = object.__getattribute__(a, "__dict__"), object.__getattribute__(b, "__dict__")
        for attr in ("operator", "attribute", "method", "function", "tag", "region"):
            x, y = va.get(attr), vb.get(attr)  # (getattr would build an AttributeDistribution)
            if callable(x) and callable(y):
                x, y = getattr(x, "__qualname__", x), getattr(y, "__qualname__", y)
            if not (x is y or same(x, y, depth=depth + 1)):
                return False
        da, db = a._dependencies, b._dependencies
        return len(da) == len(db) and all(same(x, y, depth=depth + 1) for x, y in zip(da, db))
    if isinstance(a, bool) or isinstance(b, bool):
        return a == b
    if isinstance(a, Region) and isinstance(b, Region):
        # regions built afresh by a specifier from the same operands (e.g. workspace - view)
        if type(a) is not type(b):
            return False
        for attrs in (("regionA", "regionB"), ("regions",)):
            if all(hasattr(a, x) and hasattr(b, x) for x in attrs):
                return all(same(getattr(a, x), getattr(b, x), depth=depth + 1) for x in attrs)
        return a == b
    if isinstance(a, (int, float)) and isinstance(b, (int, float)):
        if prop in _ANGLES:
            return _angle_eq(a, b)
        return abs(a - b) <= TOL * max(1.0, abs(a), abs(b))
    if isinstance(a, Orientation) or isinstance(b, Orientation):
        from scenic.core.type_support import toOrientation

        try:
            qa, qb = toOrientation(a).q, toOrientation(b).q
        except Exception:
            return False
        return all(abs(x - y) <= 1e-9 for x, y in zip(qa, qb)) or all(abs(x + y) <= 1e-9 for x, y in zip(qa, qb))
    if isinstance(a, Vector) or isinstance(b, Vector):
        try:
            ta, tb = tuple(a), tuple(b)
        except Exception:
            return False
        ta = tuple(ta) + (0,) * (3 - len(ta))
        tb = tuple(tb) + (0,) * (3 - len(tb))
        n = 2 if (mode2D and prop == "position") else 3
        return all(isinstance(x, (int, float)) and isinstance(y, (int, float)) and abs(x - y) <= TOL * max(1.0, abs(x), abs(y)) for x, y in zip(ta[:n], tb[:n]))
    if isinstance(a, (tuple, list)) and isinstance(b, (tuple, list)):
        return len(a) == len(b) and all(same(x, y, depth=depth + 1) for x, y in zip(a, b))
    if isinstance(a, dict) and isinstance(b, dict):
        return a.keys() == b.keys() and all(same(a[k], b[k], depth=depth + 1) for k in a)
    try:
        return bool(a == b)
    except Exception:
        return False


def supplied_matches(final, supplied, prop, mode2D):
    """Does the final value of `prop` equal what a specifier supplied for it, up to the
    documented normalisations (vectors, angles mod 2pi, orientations, footprints of 2D
    regions for regionContainedIn)?"""
    if same(final, supplied, prop, mode2D):
        return True
    if prop == "regionContainedIn":
        fp = getattr(supplied, "footprint", None)
        return fp is not None and same(final, fp)
    if _is_random(final):
        # e.g. normalizeAngle(<random yaw>), toVector(<random>): the supplied value must be
        # what the final value is computed from
        seen = set()
        stack = [final]
        while stack:
            x = stack.pop()
            if id(x) in seen:
                continue
            seen.add(id(x))
            if x is supplied or (x is not final and same(x, supplied, prop, mode2D)):
                return True
            stack.extend(getattr(x, "_dependencies", ()))
        return False
    return False


def show(v):
    s = repr(v)
    return s if len(s) <= 80 else s[:77] + "..."


# ---------------------------------------------------------------------------------
# observing one resolution
# ---------------------------------------------------------------------------------
class Obs:
    __slots__ = ("status", "kind", "exc", "events", "final", "specs")

    def __init__(self):
        self.status = None
        self.kind = None
        self.exc = None
        self.events = []  # (spec object, snapshot dict, returned dict)
        self.final = None
        self.specs = None


PROJECTION_REJECTED = "projection-rejected"  # the (concrete) position has no projection on the region
DUPLICATE = "duplicate-specifier"  # "Cannot use X specifier to modify itself": the same
# specifier twice, i.e. a same-priority ambiguity or a double modification


def kind_accepted(kind, errors):
    if kind in errors:
        return True
    return kind == DUPLICATE and bool(errors & {M.AMBIGUOUS, M.MODIFIED_TWICE})


def classify_exception(e):
    from scenic.core.errors import SpecifierError

    msg = str(e)
    if isinstance(e, SpecifierError):
        if "specifier to modify itself" in msg:
            return DUPLICATE
        if "specified twice with the same priority" in msg:
            return M.AMBIGUOUS
        if "cannot be directly specified" in msg:
            return M.FINAL
        if "depends on itself" in msg:
            return M.CYCLIC
        if "is not specified" in msg and "required by" in msg:
            return M.MISSING
        if "modified twice" in msg:
            return M.MODIFIED_TWICE
        return "other:SpecifierError"
    if isinstance(e, TypeError) and 'Cannot use modifying "on V" with V a vector' in msg:
        return M.ON_VECTOR
    if isinstance(e, NotImplementedError) and 'does not yet support projection using "on"' in msg:
        return M.NO_PROJECTION
    if type(e).__name__ == "RejectionException" and "Unable to place object on surface" in msg:
        return PROJECTION_REJECTED
    if isinstance(e, AttributeError):
        m = re.search(r"SimpleNamespace' object has no attribute '(\w+)'", msg)
        if m:  # a specifier / default read a property of the object before it was set
            return "dependency-not-ready:" + m.group(1)
    return "other:" + type(e).__name__


class Tracer:
    """Harness-side trace of one object creation: wraps Specifier.getValuesFor for the
    duration of a case, records (specifier, properties already set, values returned)."""

    active = None

    def __init__(self):
        self.obs = Obs()
        self.orig = None
        self.marks = None

    def start(self):
        from scenic.core.specifiers import Specifier
        import scenic.syntax.veneer as veneer

        if Tracer.active is not None:
            raise HarnessError("tracer already active")
        obs = self.obs
        orig = self.orig = Specifier.__dict__["getValuesFor"]

        def traced(spec, context):
            snap = dict(context.__dict__)
            snap.pop("_evaluated", None)
            ret = orig(spec, context)
            obs.events.append((spec, snap, dict(ret)))
            return ret

        cs = veneer.currentScenario
        self.marks = (cs, len(cs._instances), len(cs._objects), len(cs._agents))
        Specifier.getValuesFor = traced
        Tracer.active = self

    def stop(self):
        from scenic.core.specifiers import Specifier

        if Tracer.active is self:
            Specifier.getValuesFor = self.orig
            cs, a, b, c = self.marks
            del cs._instances[a:], cs._objects[b:], cs._agents[c:]
            Tracer.active = None

    def ok(self, obj):
        self.stop()
        self.obs.status = "ok"
        self.obs.final = {p: getattr(obj, p) for p in obj.properties}
        return self.obs

    def error(self, e):
        self.stop()
        if isinstance(e, (_Done, HarnessError)):
            raise e
        self.obs.status = "error"
        self.obs.kind = classify_exception(e)
        self.obs.exc = f"{type(e).__name__}: {e}"
        return self.obs


def observe(thunk):
    """Run thunk() (which creates one object) under the trace."""
    tr = Tracer()
    tr.start()
    try:
        obj = thunk()
    except Exception as e:
        return tr.error(e)
    finally:
        tr.stop()
    return tr.ok(obj)


# -- the same through compiled Scenic text -------------------------------------------
_TEXT = {"obs": {}, "cur": None}  # cur: (case index, `new` reached?)


def _t_begin(ns):
    """Route `new` of the compiled program through the tracer: the trace covers exactly the
    creation of the object (its specifiers, already built from the syntax, are recorded).
    A failing creation is recorded and yields None (a `try` statement per case would cost
    20 ms in Scenic's parser)."""
    orig_new = ns["new"]

    def new(cls, specifiers):
        cur = _TEXT["cur"]
        if cur is None or cur[1]:
            return orig_new(cls, specifiers)
        _TEXT["cur"] = (cur[0], True)
        tr = Tracer()
        tr.start()
        try:
            obj = orig_new(cls, specifiers)
        except Exception as e:
            obs = tr.error(e)
            obj = None
        else:
            obs = tr.ok(obj)
        finally:
            tr.stop()
        obs.specs = list(specifiers)
        _TEXT["obs"][cur[0]] = obs
        return obj

    ns["new"] = new
    _TEXT["obs"] = {}
    _TEXT["cur"] = None


def _t_start(i):
    _TEXT["cur"] = (i, False)


def _t_end():
    _TEXT["cur"] = None


def text_program(cases):
    """cases: [(class name, permutation of instance keys)] -> Scenic source."""
    lines = ["c06mod._t_begin(globals())"]
    for i, (cls, perm) in enumerate(cases):
        lines.append(f"c06mod._t_start({i})")
        lines.append(text_of(cls, perm).rstrip())
    lines.append("c06mod._t_end()")
    return "\n".join(lines) + "\n"


# ---------------------------------------------------------------------------------
# the model side of one case
# ---------------------------------------------------------------------------------
def raw_chain(cls):
    """Per-class declarations, most derived first, read from the classes themselves
    (not from the merged cls._defaults)."""
    from scenic.core.object_types import Constructible
    from scenic.core.specifiers import PropertyDefault

    chain = []
    for sc in cls.__mro__:
        if isinstance(sc, type) and issubclass(sc, Constructible) and "_scenic_properties" in sc.__dict__:
            decls = {}
            for prop, v in sc.__dict__["_scenic_properties"].items():
                if isinstance(v, PropertyDefault):
                    decls[prop] = M.Decl(frozenset(v.requiredProperties), v.isFinal, v.isAdditive, v.isDynamic)
                else:
                    decls[prop] = M.Decl(frozenset())
            chain.append((sc.__name__, decls))
    return chain


_CLASSINFO = {}


def class_info(ns, clsname, mode2D):
    """(merged defaults of the model, documented finals, violations of the class plumbing,
    class names along the MRO, multiple inheritance involved?)."""
    group, tier, defs = _UNIVERSE["group"], _UNIVERSE["tier"], _UNIVERSE["defs"]
    key = (group, tier if group != "base" else "", clsname, mode2D)
    if key in _CLASSINFO:
        return _CLASSINFO[key]
    cls = ns[clsname]
    chain = raw_chain(cls)
    raw = dict(chain)
    problems = []
    tag = clsname if group == "base" else group  # generated classes: one signature per universe
    names = [n for n, _ in chain]
    # the model's own linearisation of the described classes (Python's C3, an assumption)
    user_mro = [n for n in M.c3_mro(clsname, {n: d.bases for n, d in defs.items()}) if n in defs]
    impl_user = [n for n in names if n in defs]
    if user_mro != impl_user:
        problems.append((f"class-mro:{tag}", f"class {clsname}: user classes along the MRO should be {user_mro}, are {impl_user}"))
    multiple = any(len(defs[n].bases) > 1 for n in user_mro)
    decl_chain = []
    for name in user_mro:
        # user classes: the declarations must be the ones written in the prelude
        want = G.class_decls(defs[name], mode2D)
        got = raw.get(name, {})
        for prop in sorted(set(want) | set(got)):
            w, g = want.get(prop), got.get(prop)
            ok = w is not None and g is not None and (w.final, w.additive, w.dynamic) == (g.final, g.additive, g.dynamic)
            # (the implementation accumulates the inherited dependencies of an additive
            # default into the declaration object itself: only demand a superset there)
            ok = ok and (g.deps >= w.deps if w.additive else g.deps == w.deps)
            if not ok:
                problems.append((f"class-declaration:{tag}:{prop}", f"class {name} in mode2D={mode2D}: property {prop} declared as {w}, compiled as {g}"))
        decl_chain.append(want)
    for name, decls in chain:
        if name not in defs:
            decl_chain.append(decls)
    merged = M.merge_defaults(decl_chain)
    finals = set()
    for sc in cls.__mro__:
        finals |= M.documented_finals(sc.__dict__.get("__doc__") or "")
    # the implementation's merged view must be the documented merge of the declarations
    for prop in sorted(set(merged) | set(cls._defaults)):
        m, d = merged.get(prop), cls._defaults.get(prop)
        if m is None or d is None or set(d.requiredProperties) != set(m.deps) or (prop in cls._finalProperties) != m.final:
            got = None if d is None else (sorted(d.requiredProperties), prop in cls._finalProperties)
            want = None if m is None else (sorted(m.deps), m.final)
            kind = ""
            if m is not None and d is not None and (prop in cls._finalProperties) == m.final:
                miss, extra = set(m.deps) - set(d.requiredProperties), set(d.requiredProperties) - set(m.deps)
                kind = ":missing-dependencies" if miss and not extra else ":spurious-dependencies" if extra and not miss else ":wrong-dependencies"
            problems.append((f"class-merge:{tag}:{prop}{kind}", f"class {clsname}({', '.join(defs[clsname].bases) if clsname in defs else ''}) (mode2D={mode2D}): merged default of {prop}: (dependencies, final) should be {want} (the union over the declarations of {prop} along the MRO {user_mro}), is {got}"))
    for prop in sorted(finals):
        if prop in merged and not merged[prop].final:
            problems.append((f"class-final:{tag}:{prop}", f"class {clsname}: {prop} is documented as final but not declared so"))
    info = (merged, frozenset(finals), problems, names, multiple)
    _CLASSINFO[key] = info
    return info


def model_outcome(ns, clsname, mode2D, keys):
    merged, finals, _, names, _ = class_info(ns, clsname, mode2D)
    oriented = any(n.startswith("OrientedPoint") for n in names)
    sems = [M.semantics(_table(), G.INSTS[k].desc, mode2D, oriented) for k in keys]
    return sems, M.resolve(sems, merged, finals)


# ---------------------------------------------------------------------------------
# judging one observed resolution against the model
# ---------------------------------------------------------------------------------
def node_name(node, keys):
    return f"default({node[1]})" if isinstance(node, tuple) else f"`{G.INSTS[keys[node]].text}`"


def judge(ns, clsname, mode2D, keys, specs, obs, sems, out, stats):
    """-> list of (signature, message).  keys: the written order; out: model outcome of the
    multiset (indices refer to `keys`)."""
    v = []
    if obs.status == "error":
        if not out.errors and ((obs.kind == M.NO_PROJECTION and out.may_refuse_projection) or (obs.kind == PROJECTION_REJECTED and out.modifier)):
            # resolution chose the modifying `on` as predicted; then the region type refused
            # to project, or the given position has no projection on it (a rejection)
            stats["projection_refused"] += 1
            return v
        if not out.errors:
            v.append((f"unexpected-error:{obs.kind}", f"expected success, got {obs.exc}"))
        elif not kind_accepted(obs.kind, out.errors) and out.errors == {M.FINAL} and out.final_only_by_modifying_form:
            v.append(("missed-error:final:specified-by-modifying-specifier", f"expected error ['final'] ({out.detail}); resolution went on and failed later with {obs.exc}"))
        elif not kind_accepted(obs.kind, out.errors):
            v.append((f"error-kind:{'+'.join(sorted(out.errors))}-vs-{obs.kind}", f"expected error {sorted(out.errors)} ({out.detail}), got {obs.exc}"))
        return v
    if out.errors:
        sig = f"missed-error:{'+'.join(sorted(out.errors))}"
        if out.errors == {M.FINAL} and out.final_only_by_modifying_form:
            sig += ":specified-by-modifying-specifier"
        v.append((sig, f"expected error {sorted(out.errors)} ({out.detail}), but the object was created"))
        return v

    merged = class_info(ns, clsname, mode2D)[0]
    # --- identify the evaluated specifiers --------------------------------------
    idmap = {id(s): i for i, s in enumerate(specs)}
    rewritten = [i for i, k in enumerate(keys) if k == "w_heading" and sems[i].form == M.T_FACING]
    ev_of = {}
    for pos, (spec, snap, ret) in enumerate(obs.events):
        if id(spec) in idmap:
            node = idmap[id(spec)]
        elif spec.name == "PropertyDefault" and len(spec.priorities) == 1:
            node = (M.DEFAULT, next(iter(spec.priorities)))
        elif len(rewritten) == 1 and spec.name == "Facing":
            node = rewritten[0]  # porting.rst: `with heading X` is replaced with `facing X`
        else:
            v.append(("trace:unknown-specifier", f"unknown specifier evaluated: {spec}"))
            continue
        if node in ev_of:
            v.append(("evaluated-twice", f"{node_name(node, keys)} evaluated twice"))
        ev_of[node] = (pos, snap, ret)
    hidden = lambda n: isinstance(n, tuple) and n[1].startswith("_")  # internal properties
    expected_nodes = {n for n in out.deps if not hidden(n)}
    if {n for n in ev_of if not hidden(n)} != expected_nodes:
        miss = [node_name(n, keys) for n in expected_nodes - set(ev_of)]
        extra = [node_name(n, keys) for n in set(ev_of) - expected_nodes]
        v.append(("evaluated-set", f"specifiers evaluated differ from S + needed defaults: missing {miss}, unexpected {extra}"))
        return v

    final = obs.final
    # --- who determined each property -----------------------------------------------
    for prop, val in final.items():
        if prop.startswith("_"):
            continue
        w = out.winner.get(prop)
        if w is None:
            v.append((f"unexpected-property:{prop}", f"object has property {prop} which nothing specifies"))
            continue
        wnode = (M.DEFAULT, prop) if w == M.DEFAULT else w
        mnode = out.modifier.get(prop)
        supplier = mnode if mnode is not None else wnode
        pos, snap, ret = ev_of[supplier]
        if prop not in ret:
            v.append((f"winner:{prop}", f"{prop}: expected from {node_name(supplier, keys)}, which supplied only {sorted(ret)}"))
            continue
        if not supplied_matches(val, ret[prop], prop, mode2D):
            others = [node_name(n, keys) for n, (_, _, r) in ev_of.items() if n != supplier and prop in r and supplied_matches(val, r[prop], prop, mode2D)]
            v.append((f"winner:{prop}", f"{prop} = {show(val)}: expected the value of {node_name(supplier, keys)} = {show(ret[prop])}; matches {others or 'no evaluated specifier'}"))
            continue
        stats["props_judged"] += 1
        rivals = [n for n, (_, _, r) in ev_of.items() if n != supplier and prop in r]
        if rivals:
            if any(supplied_matches(val, ev_of[n][2][prop], prop, mode2D) for n in rivals if n != wnode or mnode is None):
                stats["indistinct"] += 1
            else:
                stats["winner_identified_by_value"] += 1
        wpos, wsnap, wret = ev_of[wnode]
        if mnode is not None:
            # the modifier saw the value of the specifying specifier
            if not (wpos < pos and prop in snap and supplied_matches(snap[prop], wret.get(prop), prop, mode2D)):
                v.append((f"modifier:{prop}", f"{prop}: {node_name(mnode, keys)} should modify the value {show(wret.get(prop))} of {node_name(wnode, keys)}, but saw {show(snap.get(prop, '<nothing>'))}"))
        elif prop in snap:
            v.append((f"modifier:{prop}", f"{prop}: {node_name(supplier, keys)} specifies it but found the value {show(snap[prop])} already there"))
        if prop in wsnap:
            v.append((f"modifier:{prop}", f"{prop}: specified by {node_name(wnode, keys)} after it already had a value"))
    for prop in out.winner:
        if prop not in final:
            v.append((f"missing-property:{prop}", f"property {prop} should exist"))

    # --- evaluation order: every dependency final when a specifier is evaluated --------
    for node, deps in out.deps.items():
        if node not in ev_of:
            continue  # default of an internal property
        pos, snap, ret = ev_of[node]
        for d in deps:
            stats["dep_edges"] += 1
            if d not in snap:
                v.append((f"order:{d}", f"{node_name(node, keys)} evaluated before its dependency {d} had a value"))
            elif not (snap[d] is final.get(d) or same(snap[d], final.get(d), d, mode2D)):
                v.append((f"order:{d}", f"{node_name(node, keys)} evaluated with {d} = {show(snap[d])}, but the final value is {show(final.get(d))}"))

    # --- defaults of user classes: value of the most derived class --------------------
    for prop, w in out.winner.items():
        if w != M.DEFAULT or prop not in merged or prop not in final:
            continue
        exprs = merged[prop].exprs
        if any(e is None for e in exprs):
            continue
        if any(_is_random(final.get(d)) for d in merged[prop].deps):
            continue
        selfns = types.SimpleNamespace(**final)
        vals = [eval(e, {"self": selfns, "__builtins__": {}}) for e in exprs]
        want = tuple(vals) if merged[prop].additive else vals[0]
        stats["default_values_judged"] += 1
        got = final[prop]
        if merged[prop].additive and class_info(ns, clsname, mode2D)[4] and len(vals) > 1:
            # several superclasses: "all the values along the MRO, the class's own first";
            # the order of the inherited ones is not specified anywhere -> counted only
            rest = list(got[1:]) if isinstance(got, tuple) else None
            okv = rest is not None and len(got) == len(want) and supplied_matches(got[0], want[0], prop, mode2D)
            for x in want[1:]:
                k = next((i for i, y in enumerate(rest or ()) if supplied_matches(y, x, prop, mode2D)), None) if okv else None
                if k is None:
                    okv = False
                    break
                del rest[k]
            if not okv:
                v.append((f"default-value:{prop}", f"{prop} = {show(got)}, expected the values {show(want)} (own value first, the inherited ones in any order)"))
            elif supplied_matches(got, want, prop, mode2D):
                stats["additive_order_as_mro"] += 1
            else:
                stats["additive_order_unspecified"] += 1
        elif not supplied_matches(got, want, prop, mode2D):
            v.append((f"default-value:{prop}", f"{prop} = {show(got)}, expected the default {show(want)} of the most derived class"))
    return v


# ---------------------------------------------------------------------------------
# one multiset: all permutations
# ---------------------------------------------------------------------------------
def outcomes_equal(a, b, mode2D):
    if a.status != b.status:
        return False, "one order fails, another does not"
    if a.status == "error":
        return (a.kind == b.kind), f"different errors: {a.exc} / {b.exc}"
    ka = {p for p in a.final if not p.startswith("_")}
    kb = {p for p in b.final if not p.startswith("_")}
    if ka != kb:
        return False, f"different property sets: {sorted(ka ^ kb)}"
    for p in sorted(ka):
        if not same(a.final[p], b.final[p], p, mode2D):
            return False, f"{p}: {show(a.final[p])} / {show(b.final[p])}"
    return True, ""


def _fails(ns, key):
    try:
        eval(G.INSTS[key].py, ns)
    except Exception:
        return True
    return False


def build_specs(ns, keys):
    return [eval(G.INSTS[k].py, ns) for k in keys]


# ---------------------------------------------------------------------------------
# oracle (3): table conformance of a built specifier
# ---------------------------------------------------------------------------------
_CONFORMED = set()


def conformance(ns, clsname, mode2D, route, keys, specs, sems, stats):
    """spec.priorities / requiredProperties / modifiable_props == the documented row."""
    from scenic.core.specifiers import ModifyingSpecifier

    v = []
    if specs is None:
        return v
    cls = ns[clsname]
    for k, spec, sem in zip(keys, specs, sems):
        tagk = (route, mode2D, k, sem.form)
        if tagk in _CONFORMED:
            continue
        _CONFORMED.add(tagk)
        stats["table_tags"].append(tagk)
        spec = cls._prepareSpecifiers([spec])[0]  # 2D mode: `with heading` -> `facing`
        got = {p: pri for p, pri in spec.priorities.items() if not p.startswith("_")}
        want = sem.prio
        for prop in sorted(set(got) | set(want)):
            if got.get(prop) != want.get(prop):
                v.append((f"table:{k}:{prop}", f"[{route}] `{G.INSTS[k].text}` (row \"{sem.form}\", mode2D={mode2D}): documented priority of {prop} is {want.get(prop)}, the specifier has {got.get(prop)}"))
        gd, wd = set(spec.requiredProperties), set(sem.deps)
        for prop in sorted(gd ^ wd):
            v.append((f"table-deps:{k}:{prop}", f"[{route}] `{G.INSTS[k].text}` (row \"{sem.form}\", mode2D={mode2D}): documented dependencies {sorted(wd)}, the specifier has {sorted(gd)}"))
        gm = set(spec.modifiable_props) if isinstance(spec, ModifyingSpecifier) else set()
        if gm != set(sem.modifiable):
            v.append((f"table-modifies:{k}", f"[{route}] `{G.INSTS[k].text}`: documented to modify {sorted(sem.modifiable)}, the specifier can modify {sorted(gm)}"))
    return v


def check_argument_facts(ns):
    """The catalogue's description of the arguments must be true of the prelude's objects."""
    for name, has in (("r0", False), ("r1", True), ("m0", False), ("m1", True)):
        if (ns[name].orientation is not None) != has:
            raise HarnessError(f"prelude region {name}: preferred orientation expected {has}")
    if "ob" in ns and ns["ob"].onSurface.orientation is None:
        raise HarnessError("ob.onSurface has no preferred orientation")


# ---------------------------------------------------------------------------------
# one multiset: all permutations, both routes
# ---------------------------------------------------------------------------------
def text_of(clsname, perm):
    return f"new {clsname} " + ", ".join(G.INSTS[k].text for k in perm)


def run_multiset(ns, clsname, mode2D, ms, stats, text_obs=None, keep=None):
    """-> (list of (signature, message), model outcome).  One violation per signature."""
    cls = ns[clsname]
    ms = tuple(ms)
    sems, out = model_outcome(ns, clsname, mode2D, list(ms))
    perms = G.permutations(ms)
    results = []
    found = {}

    def report(sig, msg):
        if sig not in found:
            found[sig] = (sig, msg)

    for sig, msg in class_info(ns, clsname, mode2D)[2]:
        report(sig, msg)
    shadow_only = out.errors == {M.AMBIGUOUS} and out.shadowed_tie and not out.top_tie
    for perm in perms:
        # the model's indices follow the written order; the model itself must not care
        psems, pout = model_outcome(ns, clsname, mode2D, list(perm))
        if pout.errors != out.errors or (
            not out.errors
            and {p: (perm[w] if w != M.DEFAULT else w) for p, w in pout.winner.items()} != {p: (ms[w] if w != M.DEFAULT else w) for p, w in out.winner.items()}
        ):
            raise HarnessError(f"reference resolver is order dependent on {perm}")
        for route in ("api", "text"):
            if route == "api":
                try:
                    specs = build_specs(ns, perm)
                except Exception as e:  # every instance is a documented form with valid arguments
                    bad = next((k for k in perm if _fails(ns, k)), perm[0])
                    report(f"build:{bad}", f"`{G.INSTS[bad].text}` (mode2D={mode2D}) cannot be constructed: {e!r}")
                    continue
                obs = observe(lambda: ns["new"](cls, specs))
            else:
                if text_obs is None:
                    continue
                obs = text_obs.get((clsname, perm))
                if obs is None:
                    raise HarnessError(f"text route lost the case {text_of(clsname, perm)}")
                specs = obs.specs
                if specs is None or len(specs) != len(perm):
                    report("text:specifier-list", f"{text_of(clsname, perm)} (mode2D={mode2D}) compiled to {len(specs or [])} specifiers: {obs.exc}")
                    continue
                stats["text_resolutions"] += 1
            stats["resolutions"] += 1
            if obs.status == "error":
                stats["observed"][obs.kind] = stats["observed"].get(obs.kind, 0) + 1
            for sig, msg in conformance(ns, clsname, mode2D, route, perm, specs, psems, stats):
                report(sig, msg)
            for sig, msg in judge(ns, clsname, mode2D, list(perm), specs, obs, psems, pout, stats):
                if shadow_only and sig.startswith(("missed-error", "error-kind")):
                    continue  # reported once below, as order dependence
                report(sig, f"[{route}] {text_of(clsname, perm)}  (mode2D={mode2D}): " + msg)
            results.append((perm, route, obs))
    # oracle (2): order independence, differential
    if results:
        p0, r0, o0 = results[0]
        for perm, route, obs in results[1:]:
            eq, why = outcomes_equal(o0, obs, mode2D)
            if eq:
                continue
            if o0.status == obs.status == "error" and len(out.errors) > 1 and kind_accepted(o0.kind, out.errors) and kind_accepted(obs.kind, out.errors):
                stats["multi_error"] += 1  # several documented errors apply; any of them is right
                continue
            if shadow_only:
                sig = "order-dependence:same-priority-tie"
            elif o0.status != obs.status:
                sig = "order-dependence:error-or-not"
            elif o0.status == "error":
                sig = "order-dependence:error-kind"
            else:
                sig = "order-dependence:values"
            d0 = o0.exc if o0.status == "error" else "object created"
            d1 = obs.exc if obs.status == "error" else "object created"
            ref = f"error {sorted(out.errors)}: {out.detail}" if out.errors else "no error"
            report(sig, f"{text_of(clsname, p0)} [{r0}] -> {d0}\n{text_of(clsname, perm)} [{route}] -> {d1}\n(mode2D={mode2D}) {why}; the reference says: {ref}")
    if keep is not None:
        keep[(clsname, ms)] = results
    # counters
    stats["multisets"] += 1
    if len(perms) > 1:
        stats["multisets_permuted"] += 1
    if out.errors:
        for k in out.errors:
            stats["kinds"][k] = stats["kinds"].get(k, 0) + 1
    else:
        stats["ok"] += 1
        if out.priority_conflicts:
            stats["priority_conflict"] += 1
        if out.modifier:
            stats["modifier"] += 1
    if out.errors or out.priority_conflicts or out.modifier:
        stats["nontrivial"] += 1
    return list(found.values()), out


# ---------------------------------------------------------------------------------
# work distribution
# ---------------------------------------------------------------------------------
def wants_text(cls, ms, index):
    """Deterministic part of the enumeration that is *also* run as compiled Scenic text:
    for the classes Object, Point and B every multiset of size <= 1 and a fixed stride (in
    enumeration order) of the larger ones."""
    if cls not in ("Object", "Point", "B"):
        return False
    if len(ms) <= 1:
        return True
    if len(ms) == 2:
        return index % 6 == 0
    return index % 24 == 0


def wants_text_generated(ms, class_index, index):
    """Class universes: a fixed stride of the enumeration (`new K` of every second class,
    every 7th of the other multisets)."""
    if len(ms) == 0:
        return class_index % 2 == 0
    return index % (7 if len(ms) == 1 else 17) == 0


def compare_declaration_orders(defs, keep, mode2D, stats):
    """Classes of one family differ only in the order of the lines of their body: the
    outcome of every multiset must be the same for all of them."""
    out = []
    first = {}
    for (clsname, ms), results in keep.items():
        fam = defs[clsname].family if clsname in defs else None
        if fam is None or not results:
            continue
        k = (fam, ms)
        if k not in first:
            first[k] = (clsname, results[0])
            continue
        c0, (p0, r0, o0) = first[k]
        perm, route, obs = results[0]
        stats["declaration_orders_compared"] += 1
        eq, why = outcomes_equal(o0, obs, mode2D)
        if not eq:
            d0 = o0.exc if o0.status == "error" else "object created"
            d1 = obs.exc if obs.status == "error" else "object created"
            kind = "error-or-not" if o0.status != obs.status else ("error-kind" if o0.status == "error" else "values")
            msg = f"{text_of(c0, p0)} -> {d0}\n{text_of(clsname, perm)} -> {d1}\n(mode2D={mode2D}) {why}; the two classes differ only in the order of their lines:\n{G.class_text(defs[c0])}\n{G.class_text(defs[clsname])}"
            out.append((f"declaration-order-dependence:{kind}", msg, clsname, ms))
    return out


def run_chunk(item):
    mode2D, group, tier, cases, *rest = item  # cases: [(class, multiset, text?)]
    only = rest[0] if rest else None  # families to define (None: the whole universe)
    stats = new_stats()
    violations = []

    def case_of(cls, ms, text):
        return {"cls": cls, "mode2D": mode2D, "ms": list(ms), "text": bool(text), "group": group, "gen_tier": tier}

    def attempt(cases, only_families=None):
        set_universe(group, tier, only_families)
        defs = _UNIVERSE["defs"]
        text_cases = []
        for cls, ms, text in cases:
            if text:
                for perm in G.permutations(tuple(ms)):
                    text_cases.append((cls, perm))

        def job(ns):
            if group == "base":
                check_argument_facts(ns)
            tobs = {}
            if text_cases:
                if len(_TEXT["obs"]) != len(text_cases):
                    raise HarnessError(f"text route ran {len(_TEXT['obs'])} of {len(text_cases)} cases")
                tobs = {case: _TEXT["obs"][i] for i, case in enumerate(text_cases)}
            keep = {} if group != "base" else None
            by_ms = {}
            for k, o in tobs.items():
                by_ms.setdefault((k[0], tuple(sorted(k[1]))), {})[k] = o
            for cls, ms, text in cases:
                sub = by_ms.get((cls, tuple(sorted(ms))), {}) if text else None
                found, out = run_multiset(ns, cls, mode2D, tuple(ms), stats, sub, keep)
                for sig, msg in found:
                    violations.append((sig, msg, case_of(cls, ms, text)))
            if keep:
                for sig, msg, cls, ms in compare_declaration_orders(defs, keep, mode2D, stats):
                    violations.append((sig, msg, case_of(cls, ms, False)))

        try:
            in_veneer(mode2D, job, text_program(text_cases) if text_cases else "")
        except TextRouteFailure as f:
            cls, perm = text_cases[f.index]
            violations.append(("text:statement-fails", f"{text_of(cls, perm)} (mode2D={mode2D}) as Scenic text fails outside object creation: {f.exc!r}", case_of(cls, sorted(perm, key=G.ORDER.get), True)))
            # the rest of the chunk through the API only
            cases = [(c, m, False) for c, m, _ in cases]
            text_cases = []
            in_veneer(mode2D, job, "")
        finally:
            _TEXT["obs"] = {}

    try:
        attempt(cases, only)
    except ClassUniverseFailure:
        # a class of the universe cannot even be defined: find out which families
        defs = G.classdefs(group, tier)
        fams = []
        for cls, ms, text in cases:
            if defs[cls].family not in fams:
                fams.append(defs[cls].family)
        failed = 0
        for fam in fams:
            sub = [c for c in cases if defs[c[0]].family == fam]
            try:
                attempt(sub, {fam})
            except ClassUniverseFailure as f:
                failed += 1
                if failed <= 3:
                    members = [c for c in defs.values() if c.family == fam]
                    violations.append((f"class-definition-fails:{group}:{classify_exception(f.exc)}", f"defining the classes of family {fam} (mode2D={mode2D}) fails: {f.exc!r}\n" + "\n".join(G.class_text(c) for c in members), case_of(sub[0][0], sub[0][1], False)))
    set_universe("base", "quick")
    return stats, violations


def new_stats():
    return dict(
        multisets=0,
        multisets_permuted=0,
        nontrivial=0,
        resolutions=0,
        text_resolutions=0,
        props_judged=0,
        indistinct=0,
        winner_identified_by_value=0,
        dep_edges=0,
        default_values_judged=0,
        additive_order_as_mro=0,
        additive_order_unspecified=0,
        declaration_orders_compared=0,
        table_tags=[],
        ok=0,
        multi_error=0,
        projection_refused=0,
        priority_conflict=0,
        modifier=0,
        kinds={},
        observed={},
    )


def add_stats(total, s):
    for k, v in s.items():
        if isinstance(v, dict):
            for kk, vv in v.items():
                total[k][kk] = total[k].get(kk, 0) + vv
        elif isinstance(v, list):
            total[k].extend(v)
        else:
            total[k] += v


def chunks(plan, size, tier="quick"):
    """Group the plan by mode into chunks of about `size` resolutions."""
    out = []
    for mode2D in (False, True):
        cur, weight = [], 0
        index = {}
        for cls, m2, ms in plan:
            if m2 != mode2D:
                continue
            gi = index.get((cls, len(ms)), 0)
            index[(cls, len(ms))] = gi + 1
            text = wants_text(cls, ms, gi)
            n = len(G.permutations(ms)) if len(set(ms)) > 1 else 1
            cur.append((cls, ms, text))
            weight += n * (5 if text else 1)
            if weight >= size:
                out.append((mode2D, "base", tier, cur))
                cur, weight = [], 0
        if cur:
            out.append((mode2D, "base", tier, cur))
    return out


def chunks_generated(plan, size, tier):
    """Chunks of the class universes; a family (declaration-order variants of one class) is
    never split.  Every chunk compiles its whole universe, so they are kept few."""
    out = []
    for group in ("chain", "mi"):
        defs = G.classdefs(group, tier)
        for mode2D in (False, True):
            cur, weight, gi, ci, last_family, last_cls = [], 0, 0, -1, None, None
            for g, cls, m2, ms in plan:
                if g != group or m2 != mode2D:
                    continue
                if cls != last_cls:
                    ci, last_cls = ci + 1, cls
                fam = defs[cls].family
                if weight >= size and fam != last_family:
                    out.append((mode2D, group, tier, cur))
                    cur, weight = [], 0
                last_family = fam
                text = wants_text_generated(ms, ci, gi)
                gi += 1
                n = len(G.permutations(ms)) if len(set(ms)) > 1 else 1
                cur.append((cls, ms, text))
                weight += n * (4 if text else 1)
            if cur:
                out.append((mode2D, group, tier, cur))
    return out


def run(ctx):
    _table()
    plan = G.plan(ctx.tier)
    gplan = G.plan_generated(ctx.tier)
    items = chunks(plan, 700 if ctx.tier == "quick" else 4000, ctx.tier)
    # (every chunk of a class universe defines the whole universe: one chunk each in quick)
    items += chunks_generated(gplan, 10**9 if ctx.tier == "quick" else 6000, ctx.tier)
    items = ctx.rotate(items)
    # workers are forked: keep the collector from touching (and so copying) the parent's heap
    import gc

    gc.collect()
    gc.freeze()
    total = new_stats()
    seen_sig = {}
    samples = []
    for stats, violations in ctx.pmap(run_chunk, items, chunksize=1):
        add_stats(total, stats)
        for sig, msg, case in violations:
            n = seen_sig.get(sig, 0)
            seen_sig[sig] = n + 1
            if n < 3:
                ctx.violation(sig, msg, case)
    for cls, m2, ms in (plan[len(plan) // 3], plan[len(plan) // 2], plan[-1]):
        samples.append({"mode2D": m2, "program": text_of(cls, ms), "orders": len(G.permutations(ms))})
    for g, cls, m2, ms in (gplan[len(gplan) // 3], gplan[-1]):
        samples.append({"mode2D": m2, "classes": G.class_text(G.classdefs(g, ctx.tier)[cls]), "program": text_of(cls, ms), "orders": len(G.permutations(ms))})

    # vacuity guards
    need = {
        "ok": total["ok"],
        "priority_conflict": total["priority_conflict"],
        "modifier": total["modifier"],
        "winner_identified_by_value": total["winner_identified_by_value"],
        "dep_edges": total["dep_edges"],
        "default_values_judged": total["default_values_judged"],
        "text_resolutions": total["text_resolutions"],
        "multisets_permuted": total["multisets_permuted"],
        "declaration_orders_compared": total["declaration_orders_compared"],
        "additive_values_under_multiple_inheritance": total["additive_order_as_mro"] + total["additive_order_unspecified"],
    }
    for k in (M.AMBIGUOUS, M.FINAL, M.MISSING, M.CYCLIC, M.ON_VECTOR, M.MODIFIED_TWICE):
        need["predicted:" + k] = total["kinds"].get(k, 0)
    if not ctx.violations:
        # implementation-side counters: only meaningful (and only demanded) when the
        # implementation agreed with the reference everywhere
        for k in (M.AMBIGUOUS, DUPLICATE, M.FINAL, M.MISSING, M.CYCLIC, M.ON_VECTOR):
            need["observed:" + k] = total["observed"].get(k, 0)
    else:
        for k in ("winner_identified_by_value", "dep_edges", "default_values_judged", "text_resolutions", "declaration_orders_compared", "additive_values_under_multiple_inheritance"):
            need.pop(k)
    empty = [k for k, n in need.items() if n == 0]
    if empty:
        raise HarnessError(f"vacuous: nothing counted for {empty}")
    n_rows = len({(i.desc.title) for i in G.INSTS.values()})
    table_checks = set(total["table_tags"])  # (route, mode, instance, row)
    api_instances = {t[2] for t in table_checks if t[0] == "api"}
    text_instances = {t[2] for t in table_checks if t[0] == "text"}
    if not ctx.violations and (api_instances != set(G.INSTS) or text_instances != set(G.INSTS)):
        raise HarnessError(f"table conformance did not reach every instance through both routes: {sorted(set(G.INSTS) - (api_instances & text_instances))}")

    ctx.cov.update(
        evaluations=total["resolutions"],
        states=total["multisets"],
        transitions=total["resolutions"],
        traces_validated_against_impl=total["resolutions"],
        distinct_nontrivial=total["nontrivial"],
        rule="every sub-multiset (size bound per class and tier, see bounds) of the built-in specifier instances of gen/c06_gen.py, "
        "for each class of {Object, OrientedPoint, Point, user classes A B C P Q H F} and each mode (3D, 2D), and EVERY distinct permutation "
        "of it; each permutation is resolved through veneer.new inside a live compilation and judged by models/specres.py; a fixed stride is "
        "also compiled from Scenic text. states = (class, mode, multiset); transitions = resolutions observed; non-trivial = multiset "
        "where two specifiers compete for a property at different priorities, or a modifying specifier modifies, or the reference predicts an error. "
        "Class universes (merging of defaults): `chain` = every way (absent, plain, plain self., additive, additive self.) of declaring one property at "
        "each of 3 single-inheritance levels, `mi` = the same in the first base, the non-first base, the common root and the class itself of C(U,V) / C(V,U) "
        "diamonds (with final / dynamic / self.-dependent defaults coming from either base), leaf bodies in both line orders; each class is created with "
        "its dependencies left to the class defaults or given by `with` specifiers",
        samples=samples,
        multisets_with_several_orders=total["multisets_permuted"],
        text_route_resolutions=total["text_resolutions"],
        properties_judged=total["props_judged"],
        winners_identified_by_value_against_a_rival=total["winner_identified_by_value"],
        rival_values_indistinct=total["indistinct"],
        dependency_edges_checked=total["dep_edges"],
        user_default_values_judged=total["default_values_judged"],
        class_universes={g: len([c for c in G.generated(g, ctx.tier) if c.instantiate]) for g in ("chain", "mi")},
        class_universe_states=len(gplan),
        declaration_order_variants_compared=total["declaration_orders_compared"],
        additive_tuples_under_multiple_inheritance_in_mro_order=total["additive_order_as_mro"],
        additive_tuples_under_multiple_inheritance_other_order_unspecified=total["additive_order_unspecified"],
        table_instance_checks=len(table_checks),
        documented_rows=n_rows,
        specifier_instances=len(G.INSTS),
        resolved_by_priority=total["priority_conflict"],
        resolved_with_modifier=total["modifier"],
        predicted_errors=dict(sorted(total["kinds"].items())),
        observed_errors=dict(sorted(total["observed"].items())),
        several_errors_apply=total["multi_error"],
        violating_multisets_by_signature=dict(sorted(seen_sig.items())),
        skipped_projection_unsupported=total["projection_refused"],
        bounds={
            "tier": ctx.tier,
            "quick": "size<=2 over the quick instances for all classes (+ every instance alone), size 3 over the core instances for Object and B",
            "thorough": "size<=2 over all enumerated instances for all classes, size 3 over all of them for Object and B (quick/core instances for the other classes), size 4 over the position/orientation/with core (15 instances) for Object",
        },
    )
    ctx.notes += [
        "read-only observations (not judged): veneer.FacingDirectlyAwayFrom builds a specifier named 'FacingDirectlyToward', so "
        "`facing directly toward X, facing directly away from Y` is refused as 'Cannot use FacingDirectlyToward specifier to modify itself'; "
        "the 'modified twice' branch of _resolveSpecifiers formats an undefined variable `name` (NameError), unreachable while the "
        "same-name check precedes it",
    ]
    ctx.assumptions += [
        "error kinds are told apart by exception class and message; 'Cannot use X specifier to modify itself' (same specifier twice) is accepted where the reference predicts a same-priority ambiguity or a double modification",
        "when several documented errors apply to one multiset, any of them may be reported, in any order",
        "internal properties (leading underscore, e.g. _observingEntity set by `visible`, documented as 'also adds a requirement') are not judged",
        "additive/dynamic/final attributes of defaults are not described in the reference; additive = tuple of the values of every declaration of the property along the MRO (whatever their own attributes) when the most derived declaration is additive, dynamic = no effect on resolution, final = cannot be specified",
        "several superclasses: the order of 'superclasses' is taken to be Python's C3 MRO (checked against the classes' __mro__); of an additive tuple only the class's own value first and the multiset of inherited values are judged, their order is counted (additive_tuples_under_multiple_inheritance_*), not judged",
        "what IS judged for every merged default whatever the concatenation order: it is evaluated only after every property read by any of the concatenated declarations is final, and its merged dependencies are exactly their union",
        "2D mode: `with heading X` is read as `facing X` only for classes with an orientation (porting.rst says it unconditionally; a Point has no heading); a modifying `on` whose region type refuses to project ('does not yet support projection', polygonal regions) or on which the given position has no projection (RejectionException 'Unable to place object on surface') is an argument-level outcome: counted (skipped_projection_unsupported), not judged",
        "values are compared at compile time (random values structurally: same distribution over the same operands), nothing is sampled",
    ]


def replay(ctx, case):
    _table()
    group, tier = case.get("group", "base"), case.get("gen_tier", "quick")
    cases = [(case["cls"], tuple(case["ms"]), case.get("text", False))]
    if group != "base":
        # with the other classes of its family (declaration-order variants)
        defs = G.classdefs(group, tier)
        fam = defs[case["cls"]].family
        cases = [(c.name, tuple(case["ms"]), case.get("text", False) and c.name == case["cls"]) for c in defs.values() if c.family == fam and c.instantiate]
    # (the whole universe is defined again: what a class inherits may depend on which other
    # classes were defined before it -- that is one of the things judged)
    stats, violations = run_chunk((case["mode2D"], group, tier, cases))
    for sig, msg, c in violations:
        ctx.violation(sig, msg, c)
