"""C01 — scenes are drawn from exactly the program's conditional distribution.

Engine: bounded-exhaustive program generator (gen/static.py) x complete RNG choice
tree of Scenario._generateInner under RngSeam (mc/seams.py), compared as exact
Fraction-valued laws with the reference model models/dist.py.
"""

from fractions import Fraction
import time

from mc import explorer, seams
from mc.explorer import HarnessError, OutOfFragment
from models import dist as mdist
from gen import static as gstatic

ID = "C01"
LEVEL = "model_checking"

MAX_EXEC = 40000


def _freeze(v):
    if isinstance(v, (list, tuple)):
        return tuple(_freeze(x) for x in v)
    if isinstance(v, float) and v == int(v):
        return int(v)
    return v


def observe_scene(scene, model):
    out = []
    for label, _ in model.roots:
        kind, name = label.split(":")
        if kind == "param":
            v = scene.params[name]
        else:
            oi = int(kind[3:])
            # object number k is the one created at x = 10 k (scene.objects lists the ego first)
            (obj,) = [o for o in scene.objects if o.position.x == 10 * oi]
            v = getattr(obj, name)
        out.append((label, _freeze(v)))
    return tuple(out)


def impl_law(scenario, model, k):
    """Exact law of _generateInner(k) by exhaustive exploration of the RNG."""
    from scenic.core.distributions import RejectionException

    def once():
        try:
            scene, its = scenario._generateInner(k, 0, None)
        except RejectionException:
            return mdist.REJECT
        except (explorer.HarnessError, OutOfFragment):
            raise
        except Exception as e:  # noqa: BLE001 - an escaping exception is an observable outcome
            return ("EXCEPTION", type(e).__name__)
        return (observe_scene(scene, model), its)

    law = {}
    total = Fraction(0)
    n = 0
    clock = seams.ScriptedClock(chooser=lambda i: 1.0)
    with seams.rng_seam(), seams.clock_seam(clock):
        for ex, res, stats in explorer.explore(once, max_executions=MAX_EXEC):
            w = ex.weight
            total += w
            law[res] = law.get(res, 0) + w
            n += 1
        if stats.capped:
            return None, n, "capped"
    if total != 1:
        raise HarnessError(f"leaf weights sum to {total}")
    return law, n, None


def compile_prog(text, mode2D):
    import scenic

    return scenic.scenarioFromString(text, mode2D=mode2D)


def check_program(item):
    idx, prog, modes, ks = item
    res = {"idx": idx, "execs": 0, "states": 0, "violations": [], "excluded": 0, "nontrivial": False, "outcomes": 0}
    text = gstatic.render(prog)
    model = mdist.Model(prog)
    for mode2D in modes:
        try:
            scenario = compile_prog(text, mode2D)
        except Exception as e:  # the fragment is meant to compile
            res["violations"].append(
                ("compile:" + type(e).__name__, f"program of the fragment does not compile: {e!r}", {"idx": idx, "prog": prog, "text": text, "mode2D": mode2D, "k": 0})
            )
            continue
        for k in ks:
            expected = model.generate_law(k)
            try:
                law, n, why = impl_law(scenario, model, k)
            except OutOfFragment as e:
                res["excluded"] += 1
                continue
            res["execs"] += n
            if law is None:
                res["excluded"] += 1
                continue
            res["states"] += len(law)
            res["outcomes"] = max(res["outcomes"], len(law))
            rej = expected.get(mdist.REJECT, 0)
            if k == 1 and len(expected) - (1 if rej else 0) >= 2 and 0 < rej < 1:
                res["nontrivial"] = True
            if law != expected:
                keys = sorted(set(law) | set(expected), key=repr)
                diff = [(repr(kk), str(expected.get(kk, 0)), str(law.get(kk, 0))) for kk in keys if expected.get(kk, 0) != law.get(kk, 0)]
                kindsig = "support" if set(law) != set(expected) else "probability"
                res["violations"].append(
                    (
                        f"law-mismatch:{kindsig}",
                        f"law of _generateInner(maxIterations={k}) differs from the reference (outcome, expected, observed): {diff[:6]}\n{text}",
                        {"idx": idx, "prog": prog, "text": text, "mode2D": mode2D, "k": k},
                    )
                )
    return res


def sharing_selfcheck():
    """The reference model must see sharing: x+x differs from x+resample(x)."""
    N = gstatic.N
    p1 = [("let", "x0", ("uniform", 1, 2)), ("let", "x1", ("bin", "+", N("x0"), N("x0"))), ("param", "p", N("x1"))]
    p2 = [
        ("let", "x0", ("uniform", 1, 2)),
        ("let", "y", ("resample", "x0")),
        ("let", "x1", ("bin", "+", N("x0"), N("y"))),
        ("param", "p", N("x1")),
    ]
    l1 = mdist.Model(p1).generate_law(1)
    l2 = mdist.Model(p2).generate_law(1)
    if l1 == l2 or len(l1) != 2 or len(l2) != 3:
        raise HarnessError("reference model blind to sharing")


def plan(tier):
    items = []
    for idx, prog in gstatic.programs(tier):
        nlets = sum(1 for s in prog if s[0] == "let")
        if tier == "quick":
            modes = (False, True) if nlets <= 1 else ((idx % 2) == 1,)
            ks = (1, 2) if nlets <= 2 else (1,)
        else:
            modes = (False, True) if nlets <= 2 else ((idx % 2) == 1,)
            ks = (1, 2, 3) if nlets <= 2 else (1, 2)
        items.append((idx, prog, modes, ks))
    return items


def run(ctx):
    seams.rng_selftest()
    sharing_selfcheck()
    items = ctx.rotate(plan(ctx.tier))
    execs = states = excluded = nontrivial = 0
    progs = 0
    samples = []
    outcomes = set()
    for r in ctx.pmap(check_program, items, chunksize=8):
        progs += 1
        execs += r["execs"]
        states += r["states"]
        excluded += r["excluded"]
        nontrivial += 1 if r["nontrivial"] else 0
        outcomes.add(r["outcomes"])
        for sig, desc, case in r["violations"]:
            ctx.violation(sig, desc, case)
    for it in items[:2] + items[len(items) // 2 : len(items) // 2 + 1]:
        samples.append({"index": it[0], "modes2D": list(it[2]), "maxIterations": list(it[3]), "program": gstatic.render(it[1], prelude=False)})
    if nontrivial == 0:
        raise HarnessError("vacuous: no program with a non-trivial conditional distribution")
    ctx.cov.update(
        states=states,
        transitions=execs,
        traces_validated_against_impl=execs,
        evaluations=execs,
        programs=progs,
        distinct_nontrivial=nontrivial,
        rule="all programs of gen/static.py up to the tier's size bound (simplest first) x every RNG outcome of "
        "Scenario._generateInner(maxIterations=k); states = distinct (scene, iterations)/REJECT outcomes summed over "
        "programs, transitions = complete RNG executions; non-trivial = program whose accepted-scene law has >=2 outcomes "
        "and a rejection probability strictly between 0 and 1",
        samples=samples,
        excluded_out_of_fragment=excluded,
        distinct_outcome_counts=sorted(outcomes)[-5:],
        bounds={"tier": ctx.tier, "max_lets": 3, "max_executions_per_program": MAX_EXEC},
    )
    ctx.assumptions += [
        "CPython's random.randint/choices/choice reduce to Random.random()/_randbelow() (checked by rng_selftest at start-up)",
        "the reference model models/dist.py encodes the documented sampling semantics",
    ]


def replay(ctx, case):
    r = check_program((case["idx"], _tuplify(case["prog"]), (case["mode2D"],), (case["k"] or 1,)))
    for sig, desc, c in r["violations"]:
        ctx.violation(sig, desc, c)


def _tuplify(x):
    if isinstance(x, list):
        return tuple(_tuplify(y) for y in x)
    return x
