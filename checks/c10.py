"""C10 -- the front end is total: a scenario or a located syntax error, never a crash.

Exploration by deviation bounding on mutations (gen/mutate.py): 0 mutations (every seed, every
form quoted by the reference, every form derived from the Scenic rules of the grammar itself
with each optional element absent / present),
then every single token / line / truncation mutation of the selected seeds, then pairs.

Oracle for one text: parse_string + compileScenicAST + translator.compileTranslatedTree either
succeeds, or raises ScenicSyntaxError (ScenicParseError / PythonCompileError / ASTParseError)
whose ``lineno`` is an int with 1 <= lineno <= (number of lines of the text) + 1 (the line
after the last one is where the tokenizer puts ENDMARKER; CPython itself reports end-of-input
errors there).  Anything else is a violation:
    escape:<ExceptionType>:<innermost scenic/pegen function>   another exception type
    unwrapped:SyntaxError:<function>                          a raw Python SyntaxError
    bad-lineno:<ExceptionType>:<function>                     line missing / outside the text
    hang:front-end                                            watchdog (WATCHDOG_S CPU seconds)
    state:<fields>                                            veneer not pristine afterwards
    docs-form-rejected:<form>                                 a form quoted by the reference
    docs-precedence:<example>                                 documented grouping not produced
File route: every text whose error is located past its last line, and every FILE_EVERY-th mutant, is also
written to a file and compiled with scenarioFromFile (every IMPORT_EVERY-th also imported as a module
from a second file) under the same oracle; execution failures are tolerated, the veneer must be pristine.
Global state: every STATE_EVERY-th mutant (by index in the seed's enumeration, fixed) of the
seeds whose own scenarioFromString run is fast is driven through scenic.scenarioFromString
(execution may fail in any way); afterwards veneer.isActive() must be false and the veneer
globals the test-suite's checkVeneerIsInactive inspects must be pristine.
"""

import contextlib
import io
import os
import re
import signal
import sys
import time
import traceback
import warnings

from mc.explorer import HarnessError
from gen import mutate as M

ID = "C10"
LEVEL = "exploration"

warnings.filterwarnings("ignore", category=SyntaxWarning)

REPO = os.environ.get("VERIF_REPO", "/repo")
WATCHDOG_S = 60.0  # CPU seconds of the worker per text (load independent); the front end needs 0.005-1 s
EXEC_WATCHDOG_S = 120.0  # wall seconds for the scenarioFromString runs (a timeout there is counted, not judged)
STATE_EVERY = 20
UNIT = 250  # mutants per work item
QUICK_MAX_LINES = 15
QUICK_BUDGET = 200000  # estimated single mutants in the quick tier (selection bound, not a time cap)
THOROUGH_MAX_LINES = 80
THOROUGH_BUDGET = 700000
PAIR_SEEDS = 20
PAIR_ALPHABET = ["new", "at", "from", "in", "with", "not", "x", "(", ")", ",", ":", "=", "\n", "\n+"]
PAIR_BUDGET = 250000
EXEC_FAST_S = 0.5

VENEER_FIELDS = (
    "scenarioStack", "currentScenario", "evaluatingRequirement", "evaluatingGuard", "scenarios",
    "_globalParameters", "lockedParameters", "lockedModel", "currentSimulation", "currentBehavior", "mode2D",
)  # fmt: skip


class _Timeout(BaseException):
    pass


def _on_alarm(signum, frame):
    raise _Timeout()


@contextlib.contextmanager
def watchdog(seconds, cpu=True):
    """Raise _Timeout after `seconds` of CPU time of this process (cpu=True) or of wall time."""
    signum, timer = (signal.SIGVTALRM, signal.ITIMER_VIRTUAL) if cpu else (signal.SIGALRM, signal.ITIMER_REAL)
    old = signal.signal(signum, _on_alarm)
    signal.setitimer(timer, seconds)
    try:
        yield
    finally:
        signal.setitimer(timer, 0)
        signal.signal(signum, old)


def escape_signature(exc):
    """escape:<Type>:<innermost scenic/pegen function>; an error raised by builtin compile()
    on the translated tree (function compileTranslatedTree) also carries its message, since
    there the function does not identify the construct."""
    fn = where_raised(exc)
    if isinstance(exc, RecursionError):
        # the innermost function varies with the depth at which the limit is hit: name the stage
        names = {fr.name for fr in traceback.extract_tb(exc.__traceback__)}
        fn = "compiler" if "compileScenicAST" in names else "python-compile" if "compileTranslatedTree" in names else "parser"
    sig = f"escape:{type(exc).__name__}:{fn}"
    if fn == "generic_visit":  # the compiler's "node needs visitor" assertion: name the node
        import re

        m = re.search(r'node "(\w+)"', str(exc))
        if m:
            sig += ":" + m.group(1)
    if fn == "compileTranslatedTree":
        import re

        msg = re.sub(r"'[^']*'|\"[^\"]*\"", "Q", str(exc))
        sig += ":" + re.sub(r"[^A-Za-z0-9_]+", "-", re.sub(r"\d+", "N", msg)).strip("-")[:60]
    return sig


def where_raised(exc):
    tb = traceback.extract_tb(exc.__traceback__)
    import re

    for fr in reversed(tb):
        if "/scenic/" in fr.filename or "/pegen/" in fr.filename:
            # generated helper rules are renumbered by any grammar edit: name the enclosing rule
            if re.fullmatch(r"_(tmp|loop\d|gather)_\d+|memoize_wrapper|memoize_left_rec_wrapper|<lambda>", fr.name):
                continue
            return fr.name
    return tb[-1].name if tb else "?"


def line_bound(text):
    n = text.count("\n") + (1 if text and not text.endswith("\n") else 0)
    return max(n, 1) + 1


def front_end(text, filename="<mutant>"):
    from scenic.syntax.compiler import compileScenicAST
    from scenic.syntax.parser import parse_string
    from scenic.syntax.translator import compileTranslatedTree

    tree = parse_string(text, "exec", filename=filename)
    py, _reqs = compileScenicAST(tree, filename=filename)
    compileTranslatedTree(py, filename)
    return tree


def judge(text):
    """-> (status, signature, detail); status in accepted / rejected / violation."""
    from scenic.core.errors import ScenicSyntaxError

    try:
        with watchdog(WATCHDOG_S):
            front_end(text)
        return ("accepted", None, None)
    except _Timeout:
        return ("violation", "hang:front-end", f"front end still running after {WATCHDOG_S} s of CPU time")
    except ScenicSyntaxError as e:
        ln = getattr(e, "lineno", None)
        if isinstance(ln, int) and not isinstance(ln, bool) and 1 <= ln <= line_bound(text):
            return ("rejected", None, ln)
        return (
            "violation",
            f"bad-lineno:{type(e).__name__}:{where_raised(e)}",
            f"{type(e).__name__}({e}) names line {ln!r}; the text has {line_bound(text) - 1} line(s)",
        )
    except SyntaxError as e:
        return ("violation", f"unwrapped:{type(e).__name__}:{where_raised(e)}", f"raw {type(e).__name__}: {e}")
    except RecursionError as e:
        return ("violation", escape_signature(e), f"RecursionError on an input of {len(text)} characters")
    except Exception as e:
        return ("violation", escape_signature(e), f"{type(e).__name__}: {str(e)[:300]}")


# --- global state ---------------------------------------------------------------------------


def veneer_dirty():
    import scenic.syntax.veneer as v

    bad = []
    if v.isActive() or v.activity != 0:
        bad.append("activity")
    for name in VENEER_FIELDS:
        if getattr(v, name):
            bad.append(name)
    return bad


def veneer_reset():
    import scenic.core.object_types
    import scenic.syntax.veneer as v

    v.activity = 0
    v.scenarioStack = []
    v.currentScenario = None
    v.evaluatingRequirement = False
    v.evaluatingGuard = False
    v.scenarios = []
    v._globalParameters = {}
    v.lockedParameters = set()
    v.lockedModel = None
    v.currentSimulation = None
    v.currentBehavior = None
    v.simulatorFactory = None
    if v.mode2D:
        v.mode2D = False
        v.Point, v.OrientedPoint, v.Object = v._originalConstructibles
        scenic.core.object_types.Point = v.Point
        scenic.core.object_types.OrientedPoint = v.OrientedPoint
        scenic.core.object_types.Object = v.Object


def run_dir():
    d = os.path.join(os.path.dirname(os.path.dirname(os.path.abspath(__file__))), ".build", "c10cwd")
    os.makedirs(d, exist_ok=True)
    return d


def drive(text):
    """scenarioFromString(text); execution may fail in any way.  -> (outcome, CPU seconds, dirty)"""
    import scenic

    pre = veneer_dirty()
    if pre:
        veneer_reset()
    t0 = time.process_time()
    outcome = "ok"
    cwd = os.getcwd()
    try:
        os.chdir(run_dir())
        with watchdog(EXEC_WATCHDOG_S, cpu=False), contextlib.redirect_stdout(io.StringIO()), contextlib.redirect_stderr(io.StringIO()):
            scenic.scenarioFromString(text)
    except _Timeout:
        outcome = "timeout"
    except (Exception, SystemExit) as e:
        outcome = "raised:" + type(e).__name__
    finally:
        os.chdir(cwd)
    dirty = veneer_dirty()
    if dirty:
        veneer_reset()
    return outcome, time.process_time() - t0, dirty


FILE_EVERY = 50  # besides every text whose error is located past its last line
IMPORT_EVERY = 200
FRONT_MARKS = ("compileStream", "parse_string", "compileScenicAST", "compileTranslatedTree")
EXEC_MARKS = ("executeCodeIn", "constructScenarioFrom", "storeScenarioStateIn")


def drive_file(text, via_import=False):
    """Compile the text from a FILE (scenarioFromFile, or a file importing it as a Scenic module).
    -> (status, signature, detail) with status accepted / rejected / exec-failed / violation; the
    front end must fail only with a located ScenicSyntaxError, execution may fail in any way."""
    import scenic
    from scenic.core.errors import ScenicSyntaxError

    if veneer_dirty():
        veneer_reset()
    d = os.path.join(run_dir(), f"files{os.getpid()}")
    os.makedirs(d, exist_ok=True)
    mod = os.path.join(d, "mutant_mod.scenic")
    main = os.path.join(d, "main_prog.scenic")
    with open(mod, "w", encoding="utf-8", newline="") as f:
        f.write(text)
    target = mod
    if via_import:
        with open(main, "w", encoding="utf-8") as f:
            f.write("import mutant_mod\n")
        target = main
    res = ("accepted", None, None)
    try:
        with watchdog(EXEC_WATCHDOG_S, cpu=False), contextlib.redirect_stdout(io.StringIO()), contextlib.redirect_stderr(io.StringIO()):
            scenic.scenarioFromFile(target)
    except _Timeout:
        res = ("exec-failed", None, "timeout")
    except (Exception, SystemExit) as e:
        stage = "front"
        for fr in traceback.extract_tb(e.__traceback__):
            if fr.name in FRONT_MARKS:
                stage = "front"
            elif fr.name in EXEC_MARKS:
                stage = "exec"
        if stage == "exec":
            res = ("exec-failed", None, type(e).__name__)
        elif isinstance(e, ScenicSyntaxError):
            ln = getattr(e, "lineno", None)
            if isinstance(ln, int) and not isinstance(ln, bool) and 1 <= ln <= line_bound(text):
                res = ("rejected", None, ln)
            else:
                res = ("violation", f"bad-lineno:{type(e).__name__}:{where_raised(e)}", f"(file route) {type(e).__name__}({e}) names line {ln!r}")
        else:
            res = ("violation", escape_signature(e), f"(compiled from a file{', imported as a module' if via_import else ''}) {type(e).__name__}: {str(e)[:200]}")
    finally:
        for path in (mod, main):
            try:
                os.remove(path)
            except OSError:
                pass
    dirty = veneer_dirty()
    if dirty:
        veneer_reset()
        if res[0] != "violation":
            res = ("violation", "state:" + "+".join(dirty), f"(file route) veneer not pristine after scenarioFromFile: {dirty}")
    return res


def past_last_line(text, st, detail):
    return st == "rejected" and isinstance(detail, int) and detail > line_bound(text) - 1


# --- work items ---------------------------------------------------------------------------------


def work_seed(item):
    """0 mutations: judge one seed.  item = (origin, text)"""
    origin, text = item
    t0 = time.time()
    st, sig, detail = judge(text)
    out = {"origin": origin, "status": st, "sig": sig, "detail": detail, "secs": time.time() - t0, "file": None}
    if past_last_line(text, st, detail):
        out["file"] = drive_file(text)
    return out


def work_probe(item):
    idx, text = item
    outcome, secs, dirty = drive(text)
    return {"idx": idx, "outcome": outcome, "secs": secs, "dirty": dirty}


_cache = {}


def _mutants_of(key, text, mode, insert):
    if _cache.get("key") != (key, mode, insert):
        if mode == "single":
            ms = list(M.mutants(text, M.ALPHABET, insert=insert))
        else:
            ms = list(M.pair_mutants(text, PAIR_ALPHABET))
        _cache["key"] = (key, mode, insert)
        _cache["ms"] = ms
    return _cache["ms"]


def count_mutants(item):
    key, text, mode, insert = item
    return len(_mutants_of(key, text, mode, insert))


def work_unit(item):
    key, text, mode, insert, lo, hi, exec_ok = item
    ms = _mutants_of(key, text, mode, insert)
    out = {"accepted": 0, "rejected": 0, "violations": [], "state_checks": 0, "state_outcomes": {}, "max_secs": 0.0,
           "n": 0, "kinds": {}, "exec_timeouts": 0, "file_routes": {}}  # fmt: skip
    for i in range(lo, min(hi, len(ms))):
        desc, m = ms[i]
        t0 = time.time()
        st, sig, detail = judge(m)
        dt = time.time() - t0
        out["n"] += 1
        out["max_secs"] = max(out["max_secs"], dt)
        kind = desc.split("@")[0] + ":" + st
        out["kinds"][kind] = out["kinds"].get(kind, 0) + 1
        if st == "violation":
            out["violations"].append((sig, detail, m, f"{key} {desc}", "frontend"))
        else:
            out[st] += 1
        eof = past_last_line(m, st, detail)
        if eof or (exec_ok and mode == "single" and i % FILE_EVERY == 0):
            routes = [False] + ([True] if i % IMPORT_EVERY == 0 else [])
            for via_import in routes:
                fst, fsig, fdetail = drive_file(m, via_import)
                key2 = ("file-eof:" if eof else "file-stride:") + fst
                out["file_routes"][key2] = out["file_routes"].get(key2, 0) + 1
                if fst == "violation":
                    out["violations"].append((fsig, fdetail, m, f"{key} {desc}", "file-import" if via_import else "file"))
        if exec_ok and mode == "single" and i % STATE_EVERY == 0:
            outcome, secs, dirty = drive(m)
            out["state_checks"] += 1
            oc = outcome.split(":")[0]
            out["state_outcomes"][oc] = out["state_outcomes"].get(oc, 0) + 1
            if outcome == "timeout":
                out["exec_timeouts"] += 1
            if dirty:
                out["violations"].append(
                    (
                        "state:" + "+".join(dirty),
                        f"after scenarioFromString ({outcome}) the veneer is not pristine: {dirty}",
                        m,
                        f"{key} {desc}",
                        "state",
                    )
                )
    return out


# --- docs forms ------------------------------------------------------------------------------------

FORM_CONTEXTS = {
    "statement": ["{S}\n", "behavior Bh():\n    {S}\n", "monitor Mo():\n    {S}\n",
                  "scenario Sc():\n    setup:\n        {S}\n", "scenario Sc():\n    compose:\n        {S}\n"],
    "specifier": ["x = new Object {S}\n"],
    "operator": ["x = {S}\n", "require {S}\n"],
    "newexpr": ["x = {S}\n"],
    "block": ["{S}\n", "behavior Bh():\n{I}\n"],
}  # fmt: skip


def form_texts(kind, exp):
    exp = exp.rstrip("\n")
    out = []
    for tpl in FORM_CONTEXTS[kind]:
        ind = "\n".join("    " + l for l in exp.split("\n"))
        out.append(tpl.replace("{S}", exp).replace("{I}", ind))
    return out


def work_form(item):
    origin, kind, form, exp = item
    tried = []
    for text in form_texts(kind, exp):
        st, sig, detail = judge(text)
        tried.append((text, st, sig, detail))
        if st == "accepted":
            return {"origin": origin, "form": form, "exp": exp, "ok": True, "tried": len(tried), "escapes": [t for t in tried if t[1] == "violation"]}
    return {"origin": origin, "form": form, "exp": exp, "ok": False, "tried": len(tried), "detail": [(t[0], t[1], str(t[3])) for t in tried],
            "escapes": [t for t in tried if t[1] == "violation"]}  # fmt: skip


def check_documented_precedence(ctx):
    """general.rst: `new Object beyond A by distance from B` parses as
    `beyond A by (distance from B)`."""
    import scenic.syntax.ast as S
    from scenic.syntax.parser import parse_string

    src = "new Object beyond A by distance from B\n"
    n = 0
    try:
        tree = parse_string(src, "exec")
        new = tree.body[0].value
        spec = new.specifiers[0]
        ok = (
            type(new) is S.New
            and type(spec) is S.BeyondSpecifier
            and spec.base is None
            and type(spec.offset) is S.DistanceFromOp
            and spec.offset.target.id == "B"
            and spec.position.id == "A"
        )
        n = 1
    except Exception as e:
        ok = False
    if not ok:
        ctx.violation(
            "docs-precedence:beyond-by-distance-from",
            "general.rst documents that `beyond A by distance from B` groups as `beyond A by (distance from B)`; the parser did not produce that tree",
            {"mode": "precedence"},
        )
    return n


# --- seed selection ---------------------------------------------------------------------------------


def estimate(text, ntok, nalpha, insert):
    per_tok = 3 + nalpha * (2 if insert else 1)
    return ntok * per_tok + text.count("\n") * 9 + len(text)


def select(seeds, max_lines, budget, nalpha, insert):
    """Coverage-driven, deterministic: smallest seeds first; first pass keeps a seed iff it adds
    a keyword / operator not yet covered, second pass fills the budget with the rest."""
    cands = []
    for origin, text in seeds:
        if text.count("\n") > max_lines:
            continue
        feats, ntok = M.features(text)
        if ntok == 0:
            continue
        cands.append((ntok, text, origin, feats))
    cands.sort(key=lambda c: (c[0], c[1]))
    chosen, covered, total = [], set(), 0
    rest = []
    for ntok, text, origin, feats in cands:
        if feats - covered:
            cost = estimate(text, ntok, nalpha, insert)
            if total + cost > budget:
                rest.append((ntok, text, origin, feats))
                continue
            chosen.append((origin, text))
            covered |= feats
            total += cost
        else:
            rest.append((ntok, text, origin, feats))
    for ntok, text, origin, feats in rest:
        cost = estimate(text, ntok, nalpha, insert)
        if total + cost > budget:
            break
        chosen.append((origin, text))
        total += cost
    return chosen, sorted(covered), len(cands)


# --- minimisation of a witness ---------------------------------------------------------------------


def minimise(text, sig, mode):
    """Greedy token / line deletion keeping the same signature (deterministic)."""

    def still(t):
        if mode == "state":
            outcome, _, dirty = drive(t)
            return bool(dirty) and "state:" + "+".join(dirty) == sig
        if mode in ("file", "file-import"):
            fst, fsig, _ = drive_file(t, mode == "file-import")
            return fst == "violation" and fsig == sig
        st, s2, _ = judge(t)
        return st == "violation" and s2 == sig

    changed = True
    rounds = 0
    while changed and rounds < 30:
        changed = False
        rounds += 1
        lines = text.split("\n")
        for i in range(len(lines)):
            cand = "\n".join(lines[:i] + lines[i + 1 :])
            if cand != text and still(cand):
                text, changed = cand, True
                break
        if changed:
            continue
        toks = M.tokens_of(text) or []
        for ty, s, a, b in toks:
            if b > a:
                cand = text[:a] + text[b:]
                if still(cand):
                    text, changed = cand, True
                    break
    return text


# --- run ---------------------------------------------------------------------------------------------


def collect_seeds():
    seeds = []
    for p in M.scenic_files(REPO):
        try:
            seeds.append((os.path.relpath(p, REPO), open(p, encoding="utf-8").read()))
        except (OSError, UnicodeDecodeError):
            pass
    n_files = len(seeds)
    snippets = M.test_snippets(REPO)
    blocks = M.doc_blocks(REPO)
    seeds += [("tests/syntax/" + o, t) for o, t in snippets]
    seeds += [("docs/reference/" + o, t) for o, t in blocks]
    seen, uniq = set(), []
    for o, t in seeds:
        if t not in seen:
            seen.add(t)
            uniq.append((o, t))
    return uniq, n_files, len(snippets), len(blocks)


def run(ctx):
    quick = ctx.tier == "quick"
    t_start = time.time()
    seeds, n_files, n_snip, n_blocks = collect_seeds()
    forms = M.doc_forms(REPO)
    if n_files < 50 or n_snip < 300 or len(forms) < 50:
        raise HarnessError(f"seed extraction broke: {n_files} files, {n_snip} snippets, {len(forms)} forms")

    violations = {}  # sig -> list of (len, text, detail, origin, mode)

    def add_violation(sig, detail, text, origin, mode):
        violations.setdefault(sig, []).append((len(text), text, detail, origin, mode))

    file_routes = {}

    def absorb_file(r, text, origin):
        if r.get("file"):
            fst, fsig, fdetail = r["file"]
            file_routes["file-eof:" + fst] = file_routes.get("file-eof:" + fst, 0) + 1
            if fst == "violation":
                add_violation(fsig, fdetail, text, origin, "file")

    # ---- 0 mutations
    accepted_seeds, seed_rej, seed_secs = [], 0, {}
    for (origin, text), r in zip(seeds, ctx.pmap(work_seed, seeds, chunksize=4)):
        seed_secs[origin] = r["secs"]
        absorb_file(r, text, origin)
        if r["status"] == "accepted":
            accepted_seeds.append((origin, text))
        elif r["status"] == "rejected":
            seed_rej += 1
        else:
            add_violation(r["sig"], r["detail"], text, origin, "frontend")
    # ---- forms quoted by the reference
    form_items = [(o, k, f, e) for o, k, f, exps in forms for e in exps]
    forms_ok = 0
    for r in ctx.pmap(work_form, form_items, chunksize=4):
        for text, st, sig, detail in r["escapes"]:
            add_violation(sig, detail, text, "docs form " + r["origin"], "frontend")
        if r["ok"]:
            forms_ok += 1
        else:
            sig = "docs-form-rejected:" + re.sub(r"[^A-Za-z0-9]+", "-", r["form"].split("\n")[0]).strip("-")[:60]
            ctx.violation(
                sig,
                f"the reference ({r['origin']}) quotes the form {r['form']!r}; its expansion {r['exp']!r} is rejected in every context: {r['detail']}",
                {"mode": "docform", "kind": next(k for o, k, f, e in form_items if f == r["form"]), "form": r["form"], "exp": r["exp"], "origin": r["origin"]},
            )
    n_prec = check_documented_precedence(ctx)
    # ---- forms derived from the grammar: every Scenic rule with each optional part absent / present
    gforms, gstats = M.grammar_forms(os.path.join(REPO, "src", "scenic", "syntax", "scenic.gram"))
    g_acc = g_rej = 0
    g_roots_accepted = set()
    for (origin, text), r in zip(gforms, ctx.pmap(work_seed, gforms, chunksize=32)):
        absorb_file(r, text, "grammar form " + origin)
        if r["status"] == "accepted":
            g_acc += 1
            g_roots_accepted.add(origin.split("@")[0])
        elif r["status"] == "rejected":
            g_rej += 1
        else:
            add_violation(r["sig"], r["detail"], text, "grammar form " + origin, "frontend")
    # ---- literal alphabets (numbers, adjacent string literals) and nesting depth
    lforms = M.literal_and_nesting_forms()
    l_counts = {}
    for (origin, text), r in zip(lforms, ctx.pmap(work_seed, lforms, chunksize=16)):
        absorb_file(r, text, "literal/nesting form " + origin)
        fam = origin.split(":")[0]
        c = l_counts.setdefault(fam, {"accepted": 0, "rejected": 0, "violation": 0})
        c[r["status"]] += 1
        if r["status"] == "violation":
            add_violation(r["sig"], r["detail"], text, "literal/nesting form " + origin, "frontend")
    for fam in ("number", "strings", "nesting"):
        c = l_counts.get(fam, {})
        if not c.get("accepted") or not (c.get("rejected") or c.get("violation")):
            raise HarnessError(f"vacuous literal/nesting family {fam}: {c}")
    if g_acc == 0 or g_rej == 0 or len(g_roots_accepted) < gstats["roots"] // 2:
        raise HarnessError(f"vacuous grammar-derived forms: {g_acc} accepted, {g_rej} rejected, {len(g_roots_accepted)}/{gstats['roots']} rules with an accepted form")

    # ---- single mutations
    insert = not quick
    chosen, covered, n_cands = select(
        accepted_seeds,
        QUICK_MAX_LINES if quick else THOROUGH_MAX_LINES,
        QUICK_BUDGET if quick else THOROUGH_BUDGET,
        len(M.ALPHABET),
        insert,
    )
    if len(chosen) < 10:
        raise HarnessError("fewer than 10 seeds selected for mutation")
    probes = list(ctx.pmap(work_probe, list(enumerate(t for _, t in chosen)), chunksize=1))
    exec_ok = {}
    for p in probes:
        exec_ok[p["idx"]] = p["outcome"] != "timeout" and p["secs"] <= EXEC_FAST_S
        if p["dirty"]:
            add_violation("state:" + "+".join(p["dirty"]), f"after scenarioFromString of an unmutated seed ({p['outcome']})", chosen[p["idx"]][1], chosen[p["idx"]][0], "state")
    counts = list(ctx.pmap(count_mutants, [(o, t, "single", insert) for o, t in chosen], chunksize=1))
    units = []
    for idx, ((o, t), n) in enumerate(zip(chosen, counts)):
        for lo in range(0, n, UNIT):
            units.append((o, t, "single", insert, lo, lo + UNIT, exec_ok[idx]))
    n_single = sum(counts)
    # ---- pairs (thorough)
    n_pairs = 0
    pair_seeds = []
    if not quick:
        smallest = sorted(accepted_seeds, key=lambda s: (M.features(s[1])[1], s[1]))
        smallest = [s for s in smallest if M.features(s[1])[1] >= 3][:PAIR_SEEDS]
        pcounts = list(ctx.pmap(count_mutants, [(o, t, "pair", False) for o, t in smallest], chunksize=1))
        for (o, t), n in zip(smallest, pcounts):
            if n_pairs + n > PAIR_BUDGET:
                break
            pair_seeds.append(o)
            n_pairs += n
            for lo in range(0, n, UNIT):
                units.append((o, t, "pair", False, lo, lo + UNIT, False))

    tot = {"accepted": 0, "rejected": 0, "n": 0, "state_checks": 0, "exec_timeouts": 0}
    kinds, state_outcomes = {}, {}
    max_secs = 0.0
    for r in ctx.pmap(work_unit, ctx.rotate(units), chunksize=1):
        for k in tot:
            tot[k] += r[k]
        max_secs = max(max_secs, r["max_secs"])
        for k, v in r["kinds"].items():
            kinds[k] = kinds.get(k, 0) + v
        for k, v in r["state_outcomes"].items():
            state_outcomes[k] = state_outcomes.get(k, 0) + v
        for k, v in r["file_routes"].items():
            file_routes[k] = file_routes.get(k, 0) + v
        for sig, detail, text, origin, mode in r["violations"]:
            add_violation(sig, detail, text, origin, mode)

    # ---- vacuity guards
    if tot["rejected"] == 0 or tot["accepted"] == 0:
        raise HarnessError(f"vacuous: {tot['rejected']} mutants rejected with a located error, {tot['accepted']} accepted")
    if tot["state_checks"] == 0 or not (set(state_outcomes) - {"ok"}) or "ok" not in state_outcomes:
        raise HarnessError(f"vacuous global-state check: outcomes {state_outcomes}")
    if forms_ok == 0:
        raise HarnessError("vacuous: no documented form accepted")
    if not any(k.startswith("file-eof:") for k in file_routes) or not any(k.startswith("file-stride:") for k in file_routes):
        raise HarnessError(f"vacuous file route: {file_routes}")
    import shutil

    for name in os.listdir(run_dir()):
        if name.startswith("files"):
            shutil.rmtree(os.path.join(run_dir(), name), ignore_errors=True)

    # ---- report: per signature the shortest witnesses, the very shortest minimised further
    n_viol = 0
    minimal = {}
    for sig, items in sorted(violations.items()):
        items.sort(key=lambda x: (x[0], x[1]))
        n_viol += len(items)
        ln, text, detail, origin, mode = items[0]
        try:
            small = text if sig.startswith("hang") else minimise(text, sig, mode)
        except Exception:
            small = text
        minimal[sig] = small
        reported = set()
        for cand, det, org in [(small, detail, origin + " (minimised)")] + [(t, d, o) for _, t, d, o, _ in items[:2]]:
            if cand in reported:
                continue
            reported.add(cand)
            ctx.violation(sig, f"{det}\ninput ({org}):\n{cand}", {"mode": mode, "text": cand})

    ctx.cov.update(
        evaluations=len(seeds) + len(form_items) + len(gforms) + len(lforms) + tot["n"],
        distinct_nontrivial=tot["rejected"],
        rule="0 mutations: every seed, every expansion of every grammar form of docs/reference, and every Scenic-specific rule of "
        "scenic.gram expanded with each optional element absent/present, each repetition 0/1/2 times and each alternative (nested "
        "Scenic rules to depth 2, at most 300 expansions per rule) in 8 statement/expression/specifier contexts; 1 mutation: for the "
        "selected seeds every token delete/duplicate/swap/replace-by-alphabet (+insert in thorough), every line re-indent/"
        "delete/duplicate/swap, every truncation offset; 2 mutations (thorough): all token-mutation pairs over the reduced "
        "alphabet on the smallest seeds.  Non-trivial = mutant rejected with a located ScenicSyntaxError (the oracle's "
        "interesting branch); accepted mutants counted separately.",
        samples=[{"seed": o, "text": t[:160]} for o, t in chosen[:2]] + [{"form": f, "expansion": e} for o, k, f, e in form_items[:2]],
        seeds=len(seeds),
        seed_files=n_files,
        seed_test_snippets=n_snip,
        seed_doc_blocks=n_blocks,
        seeds_accepted=len(accepted_seeds),
        seeds_rejected_with_located_error=seed_rej,
        doc_forms=len(forms),
        doc_form_expansions=len(form_items),
        doc_form_expansions_accepted=forms_ok,
        documented_precedence_examples=n_prec,
        grammar_rules_expanded=gstats["roots"],
        grammar_forms=gstats["bodies"],
        grammar_form_texts=gstats["texts"],
        grammar_form_texts_accepted=g_acc,
        grammar_form_texts_rejected_located=g_rej,
        grammar_rules_with_an_accepted_form=len(g_roots_accepted),
        grammar_rules_without_accepted_form=sorted(set(gstats["bodies_per_root"]) - g_roots_accepted),
        grammar_rules_truncated=gstats["truncated_rules"],
        literal_and_nesting_forms=len(lforms),
        literal_and_nesting_outcomes=l_counts,
        literal_alphabets={"numbers": M.NUMBER_ALPHABET, "number_positions": len(M.NUMBER_POSITIONS), "string_prefixes": M.STRING_PREFIXES,
                           "string_positions": len(M.STRING_POSITIONS), "nesting_depths": list(M.NESTING_DEPTHS),
                           "nesting_shapes": sorted(M.NESTING_SHAPES) + ["block-" + b for b in M.BLOCK_SHAPES]},
        mutation_seed_candidates=n_cands,
        mutation_seeds=len(chosen),
        mutation_seed_features_covered=len(covered),
        single_mutants=n_single,
        pair_mutants=n_pairs,
        pair_seeds=len(pair_seeds),
        mutants_judged=tot["n"],
        mutants_accepted=tot["accepted"],
        mutants_rejected_located=tot["rejected"],
        mutants_violating=n_viol,
        by_mutation_kind=dict(sorted(kinds.items())),
        state_checks=tot["state_checks"],
        state_check_outcomes=state_outcomes,
        state_check_seeds=sum(1 for v in exec_ok.values() if v),
        exec_timeouts=tot["exec_timeouts"],
        file_route_outcomes=dict(sorted(file_routes.items())),
        file_route_rule=f"scenarioFromFile on every text whose syntax error is located past its last line and on every {FILE_EVERY}th single mutant "
        f"(every {IMPORT_EVERY}th also imported as a Scenic module from a second file)",
        slowest_front_end_seconds=round(max_secs, 3),
        violations_by_signature={k: len(v) for k, v in sorted(violations.items())},
        minimal_reproducers=minimal,
        bounds={
            "tier": ctx.tier, "alphabet": M.ALPHABET, "pair_alphabet": PAIR_ALPHABET, "state_every": STATE_EVERY,
            "max_seed_lines": QUICK_MAX_LINES if quick else THOROUGH_MAX_LINES,
            "single_mutant_budget": QUICK_BUDGET if quick else THOROUGH_BUDGET, "watchdog_s": WATCHDOG_S,
            "selection": "smallest-first, a seed is kept if it adds an uncovered keyword/operator, then the budget is filled",
        },  # fmt: skip
    )
    ctx.assumptions += [
        "an error naming line (number of lines)+1 counts as inside the input: that is where ENDMARKER sits and where CPython reports end-of-input errors",
        f"global-state check on every {STATE_EVERY}th single mutant (index in the deterministic enumeration) of the seeds whose own scenarioFromString takes <= {EXEC_FAST_S} s",
        "the grammar forms of the reference are expanded with [x] optional, [x]* 0..2 copies, (a | b) alternatives, fixed placeholder substitutions (gen/mutate.py PLACEHOLDER)",
    ]


def replay(ctx, case):
    mode = case.get("mode")
    if mode == "precedence":
        check_documented_precedence(ctx)
        return
    if mode == "docform":
        r = work_form((case["origin"], case["kind"], case["form"], case["exp"]))
        if not r["ok"]:
            sig = "docs-form-rejected:" + re.sub(r"[^A-Za-z0-9]+", "-", r["form"].split("\n")[0]).strip("-")[:60]
            ctx.violation(sig, f"form {r['form']!r} expansion {r['exp']!r} rejected: {r['detail']}", case)
        return
    text = case["text"]
    if mode == "state":
        outcome, secs, dirty = drive(text)
        if dirty:
            ctx.violation("state:" + "+".join(dirty), f"after scenarioFromString ({outcome}) the veneer is not pristine: {dirty}\n{text}", case)
        return
    if mode in ("file", "file-import"):
        st, sig, detail = drive_file(text, mode == "file-import")
    else:
        st, sig, detail = judge(text)
    if st == "violation":
        ctx.violation(sig, f"{detail}\ninput:\n{text}", case)
