"""C05 -- expressions over random values evaluate as in plain Python on the samples.

Engine: bounded-exhaustive enumeration of typed expression trees (gen/expr_c05.py) x every
outcome of their random leaves.

* Discrete leaves (Uniform / Discrete / DiscreteRange, the selectors of `Uniform(*lst)`) are
  explored *exactly*: every RNG outcome through seams.rng_seam() + explorer.explore.
* Continuous leaves (Range / Normal / TruncatedNormal) are driven over a 5-point value lattice:
  on top of the exact seam the module-level `random.uniform`, `random.gauss` and `random.random`
  are answered by the explorer from UNI / GAUSS / RND (harness-side patch of the `random`
  module's attributes only, restored afterwards).  No sampling anywhere.

Oracles
  (1) API route: the tree is built with Scenic's Python API; for every node of the expression
      forest that got sampled, its value must equal the plain-Python operation applied to the
      sampled values of its operands (read back from the very sample dictionary), so rounding
      never accumulates: ints / strings / containers exact, floats 1e-12 relative (1e-9 for
      the geometric methods, whose plain model is not the same arithmetic).  Derived leaves
      (Range / DiscreteRange / Uniform with random parameters, Uniform(*lst)) are judged by
      membership.  A Python exception (ZeroDivisionError...) must be matched by the same
      exception type at sampling time.
      Compiled route: a deterministic prefix (simplest first, per depth level) of the
      enumeration is also rendered as Scenic source (`param p = <expr>`, `with foo <expr>`),
      compiled and generated under the same seam; scene.params / the object property must
      equal ordinary Python evaluation from the sampled leaves (scene.params["leaf<i>"]).
      Comparisons are checked inside `require` statements (what the closure saw, its verdict,
      and acceptance / rejection of the scene).
  (2) `self.`-dependent class defaults and lazily evaluated specifier arguments
      (`X relative to <field>`): recomputed from the FINAL property values of the object.
  (3) supportInterval(node) must contain every value produced for that node (every node of
      every tree; None = unbounded).
"""

from __future__ import annotations

import collections
import contextlib
import math
import random
import time
import warnings

from gen import expr_c05 as G
from mc import explorer, seams
from mc.explorer import HarnessError, choose

ID = "C05"
LEVEL = "exploration"

UNI = (0.0, 0.3, 0.5, 0.8, 1 - 2.0**-53)  # random.uniform(a, b) = a + (b - a) * u
GAUSS = (-2.0, -0.75, 0.25, 1.0, 2.5)  # random.gauss(mu, sigma) = mu + sigma * z
RND = (0.02, 0.3, 0.5, 0.8, 0.98)  # random.random() (TruncatedNormal)
MAX_EXEC = 4000
SUP_TOL = 1e-9
COMPILED_FRACTION = 10  # every depth level: first 1/10 of its order goes through the compiler
CMPS = ("<", "<=", ">", ">=", "==", "!=")
PYCMP = {"<": lambda a, b: a < b, "<=": lambda a, b: a <= b, ">": lambda a, b: a > b, ">=": lambda a, b: a >= b, "==": lambda a, b: a == b, "!=": lambda a, b: a != b}


@contextlib.contextmanager
def value_seam():
    """Exact exploration of the discrete primitives + 5-point lattices for the continuous ones."""
    with seams.rng_seam():
        saved = (random.uniform, random.gauss, random.random)

        def uniform(a, b):
            return a + (b - a) * UNI[choose(len(UNI), tag="uniform")]

        def gauss(mu=0.0, sigma=1.0):
            return mu + sigma * GAUSS[choose(len(GAUSS), tag="gauss")]

        def rnd():
            return RND[choose(len(RND), tag="random")]

        random.uniform, random.gauss, random.random = uniform, gauss, rnd
        try:
            yield
        finally:
            random.uniform, random.gauss, random.random = saved


class Missing(Exception):
    """A derived leaf was never sampled (sampling stopped before it)."""


class Vals(dict):
    def __missing__(self, key):
        raise Missing(key)


class _Opaque:
    """Stands for a random value when looking for *constant* sub-expressions: any use raises Missing."""

    def _use(self, *a, **k):
        raise Missing("opaque")

    __getattr__ = __getitem__ = __iter__ = __len__ = __call__ = __index__ = __float__ = __int__ = _use
    __neg__ = __pos__ = __abs__ = __round__ = __bool__ = _use
    for _n in ("add", "sub", "mul", "truediv", "floordiv", "mod", "divmod", "pow", "lt", "le", "gt", "ge"):
        locals()[f"__{_n}__"] = _use
        locals()[f"__r{_n}__"] = _use
    del _n


class OpaqueVals(dict):
    def __missing__(self, key):
        return _Opaque()


def _real(v):
    return isinstance(v, (int, float)) and not isinstance(v, bool) and not (isinstance(v, float) and math.isnan(v))


def _all_real(v):
    if isinstance(v, (tuple, list)):
        return all(_all_real(x) for x in v)
    return _real(v)


def _isnumpy(v):
    return type(v).__module__ == "numpy"


def _nonfinite(v):
    v = G._denumpy(v)
    if isinstance(v, complex):
        return True
    if isinstance(v, float):
        return math.isnan(v) or math.isinf(v)
    if isinstance(v, (tuple, list)):
        return any(_nonfinite(x) for x in v)
    return False


def _has_complex(v):
    v = G._denumpy(v)
    if isinstance(v, complex):
        return True
    if isinstance(v, (tuple, list)):
        return any(_has_complex(x) for x in v)
    if isinstance(v, dict):
        return any(_has_complex(x) for x in v.values())
    if isinstance(v, G.PVec):
        return any(_has_complex(x) for x in v)
    return False


ANGLE_ATTRS = ("yaw", "pitch", "roll")


def same_angles(exp, act):
    """Euler angles agree modulo 2 pi."""
    exp, act = G._denumpy(exp), G._denumpy(act)
    if isinstance(exp, (tuple, list)) and isinstance(act, (tuple, list)) and len(exp) == len(act):
        return next((r for r in (same_angles(a, b) for a, b in zip(exp, act)) if r), None)
    if _real(exp) and _real(act):
        return None if abs(math.remainder(exp - act, math.tau)) <= G.GEO else f"angle {exp!r} != {act!r}"
    return G.same(exp, act, G.GEO)


GEOMETRIC = {"distanceTo", "norm", "dot", "angleTo", "rotatedBy", "offsetRotated", "localAnglesFor"}


def node_tol(n):
    if n[0] == "meth" and n[1] in GEOMETRIC:
        return G.GEO
    if n[0] in ("euler", "D") or (n[0] == "attr" and n[1] in ("yaw", "pitch", "roll", "inverse")):
        return G.GEO
    if n[0] == "bin" and any(G.shape(x) in ("vec", "vec0", "vecleaf", "vecexpr", "ori", "orileaf", "oriexpr", "identity", "tuple", "tuple0") or x[0] in ("meth", "vec", "euler") for x in (n[2], n[3])):
        return G.GEO
    return G.REL


DISCONT = {"//", "%", "divmod"}


def risky(tree):
    """A discontinuous operation above a geometric value: exact-from-leaves evaluation could
    differ by an ulp across the jump; such trees are judged node-locally (API route) only."""

    def geo_below(n):
        return any(node_tol(m) == G.GEO for m in G.walk(n))

    for m in G.walk(tree):
        disc = (m[0] == "bin" and m[1] in DISCONT) or (m[0] == "un" and m[1] == "round") or m[0] in ("rnd", "idx", "slc") or (m[0] == "M" and m[1] in ("drng", "star"))
        if disc and any(geo_below(c) for c in G.children(m)):
            return True
    return False


EXPECTED_REFUSALS = (
    # Python semantics, nothing Scenic could lift: a tuple *literal* indexed by a random value
    ("TypeError", "tuple indices must be integers or slices"),
    ("TypeError", "list indices must be integers or slices"),
)


def classify_construct(e, tree, where):
    """-> ("refused", reason) or ("violation", signature, description)"""
    name = type(e).__name__
    msg = str(e)
    for en, frag in EXPECTED_REFUSALS:
        if name == en and frag in msg:
            return ("refused", "literal-container-indexed-by-random-value")
    # a constant sub-expression on which plain Python raises the same exception
    for m in G.walk(tree):
        try:
            G.pyeval(m, OpaqueVals())
        except Missing:
            continue
        except Exception as e2:
            if type(e2) is type(e):
                return ("refused", "constant-subexpression-raises-in-python-too")
    # blame the lowest node whose construction fails
    culprit = tree
    for m in G.walk(tree):
        try:
            if where == "api":
                G.build(m)
            else:
                continue
        except Exception as e2:
            if type(e2) is type(e):
                culprit = m
                break
    return ("violation", f"construct-raises:{name}:{G.nodekey(culprit)}", f"constructing {G.render_expr(culprit)} raises {name}: {msg[:200]}; in {G.describe(tree)}")


# ------------------------------------------------------------------------------------------
# API route
# ------------------------------------------------------------------------------------------


def check_api(tree, res):
    from scenic.core.distributions import Distribution, RejectionException, Samplable, supportInterval, toDistribution
    from scenic.core.lazy_eval import needsSampling

    try:
        root, B = G.build(tree)
        rootobj = toDistribution(root)
    except Exception as e:
        c = classify_construct(e, tree, "api")
        if c[0] == "refused":
            res["refused"][c[1]] += 1
        else:
            res["violations"].append((c[1], c[2], {"route": "api"}))
        return None

    for n, side, const in B.shortcuts:
        name = G.shortcut_of(n)
        if name is None:
            name = "vector-zero" if G.shape(const) in ("vec0", "tuple0") else ("orientation-identity" if G.shape(const) == "identity" else "other")
        res["shortcut_taken"][name] += 1

    objs = {id(n): o for n, o in B.nodes}
    objs[id(tree)] = rootobj
    leaf_items = sorted(B.leaf.items())
    leafobjs = [o for _, o in leaf_items]
    # node objects whose sampled value is judged: every lazy object of the forest + the root
    judged = [(n, o) for n, o in B.nodes if n is not tree and isinstance(o, Samplable)]
    judged.append((tree, rootobj))

    # ---- (3) static supports, once per tree ----
    supports = {}
    support_raised = set()
    for n, o in [(B.leafnode[i], ob) for i, ob in leaf_items] + judged:
        if isinstance(o, Distribution) or _real(o):
            try:
                lo, hi = supportInterval(o)
                supports[id(n)] = (n, lo, hi)
                if lo is not None or hi is not None:
                    res["support_nodes_bounded"] += 1
            except Exception as e:
                support_raised.add(id(n))
                if any(id(m) in support_raised for c in G.children(n) for m in G.walk(c)):
                    continue  # consequence of an operand whose support already raises
                res["violations"].append(
                    (
                        f"support:{G.nodekey(n)}:raises-{type(e).__name__}",
                        f"supportInterval({G.render_expr(n)}) raises {type(e).__name__}: {e}; in {G.describe(tree)}",
                        {"route": "api"},
                    )
                )

    def once():
        try:
            subs = Samplable.sampleAll(leafobjs)
        except Exception as e:  # leaves are plain distributions
            raise HarnessError(f"sampling a leaf failed: {e!r}")
        try:
            if needsSampling(rootobj):
                subs[rootobj] = rootobj.sample(subs)
        except RejectionException as e:
            return ("reject", subs, e)
        except Exception as e:
            return ("raise", subs, e)
        return ("ok", subs, None)

    rootvals = set()
    nonreal0 = res["excluded_nonreal_parameter"] + res["unjudged_numpy_degenerate"]
    complex_seen = False
    seen_violation = set()
    py_raises = 0
    n_exec = 0
    with value_seam():
        for ex, (status, subs, exc), stats in explorer.explore(once, max_executions=MAX_EXEC):
            n_exec += 1
            out = judge_api(tree, B, objs, judged, supports, leaf_items, status, subs, exc, res)
            if out == "pyraise":
                py_raises += 1
            elif isinstance(out, tuple):
                sig = out[0]
                if sig not in seen_violation:
                    seen_violation.add(sig)
                    res["violations"].append(out)
            if status == "ok":
                try:
                    rv = G.to_plain(subs[rootobj])
                    rootvals.add(repr(rv))
                    complex_seen = complex_seen or _has_complex(rv)
                except Exception:
                    pass
        if stats.capped:
            res["capped"] += 1
    res["execs"] += n_exec
    res["outcomes_python_raises"] += py_raises
    if len(rootvals) >= 2:
        res["nontrivial"] += 1
    odd = res["excluded_nonreal_parameter"] + res["unjudged_numpy_degenerate"] > nonreal0 or complex_seen
    return {"py_raises": py_raises > 0 or odd, "execs": n_exec}


def judge_api(tree, B, objs, judged, supports, leaf_items, status, subs, exc, res):
    """One outcome.  Returns None (fine), "pyraise" (Python raises, Scenic too) or a violation."""
    known = {}
    vals = Vals()
    for i, o in leaf_items:
        vals[("L", i)] = G.to_plain(subs[o])
    for i, (n, o) in B.derived.items():
        if o in subs:
            vals[("M", i)] = G.to_plain(subs[o])
    sampled = []
    for n, o in judged:
        if o in subs:
            v = G.to_plain(subs[o])
            known[id(n)] = v
            sampled.append((n, o, v))
        elif n is tree and status == "ok":  # non-lazy root (e.g. a dict): the value is the object
            v = G.to_plain(o)
            sampled.append((n, o, v))
    if status == "ok" and rootobj_of(judged) not in subs:
        v = G.to_plain(rootobj_of(judged))
        if "UNSAMPLED" in repr(v):
            return (value_signature(tree, v), f"{G.describe(tree)}: the value is never sampled: {v!r}", {"route": "api"})
    desc_in = lambda: "in " + G.describe(tree) + "; sampled " + ", ".join(f"L{i}={vals[('L', i)]!r}" for i, _ in leaf_items)

    # nodes in post order: every sampled node must equal the Python operation on its operands
    first_py_exc = None
    tainted = False
    numpy_degenerate = False
    for n in G.walk(tree):
        if n[0] in ("c", "k", "L"):
            continue
        got = [v for m, o, v in sampled if m is n]
        if n[0] == "M":
            try:
                kidvals = [G.pyeval(k, vals, known) for k in n[3:]]
            except (Missing, G.GimbalLock):
                continue
            except Exception as e:
                first_py_exc = first_py_exc or (n, e)
                continue
            if not got:
                if status == "reject" and n[1] == "star" and len(kidvals) == 1 and len(kidvals[0]) == 0:
                    res["rejections_expected"] += 1
                    return None
                if status == "reject" and n[1] == "drng" and all(_real(k) for k in kidvals) and math.ceil(kidvals[0]) > math.floor(kidvals[1]):
                    res["rejections_expected"] += 1
                    return None
                if not all(_all_real(k) for k in kidvals):
                    res["excluded_nonreal_parameter"] += 1
                    return None
                continue
            if not all(_all_real(k) for k in kidvals) or not _all_real(got[0]):
                res["excluded_nonreal_parameter"] += 1
                continue
            bad = G.member_ok(n, got[0], kidvals)
            if bad:
                return (f"member:{G.nodekey(n)}", f"{G.render_expr(tree)}: value of {G.render_derived(n)} {bad}; {desc_in()}", {"route": "api"})
            res["membership_checked"] += 1
            continue
        geo = node_tol(n) == G.GEO or n[0] in ("meth", "vec", "euler")
        try:
            kv = [G.pyeval(c, vals, known) for c in G.children(n)]
        except Exception:
            kv = []
        if geo and any(_has_complex(v) for v in kv):
            res["excluded_nonreal_parameter"] += 1  # complex number as a geometric operand: ill-typed
            tainted = True
            continue
        try:
            exp = G.pyeval(n, vals, known, top=True)
        except Missing:
            continue
        except G.GimbalLock:
            res["skipped_gimbal_lock"] += 1
            known.pop(id(n), None)
            continue
        except Exception as e:
            if first_py_exc is None:
                first_py_exc = (n, e)
            continue
        if not got:
            if n[0] == "bin" and _nonfinite(exp) and any(_isnumpy(v) for v in kv):
                numpy_degenerate = True
            continue
        if n[0] == "bin":  # identity-element forms that got judged (whatever the verdict)
            form = identity_form(n)
            if form:
                if form in G.SHORTCUTS.values():
                    x = n[2] if n[3][0] == "c" else n[3]
                    try:
                        xv = G.pyeval(x, vals, known)
                        form += ":int-valued" if isinstance(xv, int) else ":float-valued"
                    except Exception:
                        pass
                res["identity_forms"][form] += 1
        if (n[0] == "attr" and n[1] in ANGLE_ATTRS) or (n[0] == "meth" and n[1] == "localAnglesFor"):
            bad = same_angles(exp, got[0])
        else:
            bad = G.same(exp, got[0], node_tol(n))
        if bad and n[0] == "bin" and any(_isnumpy(v) for v in kv) and (_nonfinite(exp) or _nonfinite(got[0])):
            # inf / nan / complex result with a numpy scalar operand: Python's answer depends on the
            # reflected-operand priority of the numpy subclass; not judged
            res["unjudged_numpy_degenerate"] += 1
            known.pop(id(n), None)
            continue
        if bad:
            sig = value_signature(n, got[0])
            return (sig, f"{G.render_expr(tree)}: node {G.render_expr(n)} sampled as {got[0]!r}, plain Python gives {exp!r} ({bad}); {desc_in()}", {"route": "api"})
        res["node_values_checked"] += 1

    if status == "raise":
        if first_py_exc is not None:
            if type(first_py_exc[1]) is not type(exc):
                res["both_raise_different_exception_type"] += 1
            return "pyraise"
        if tainted:
            return None
        if numpy_degenerate and isinstance(exc, (ZeroDivisionError, OverflowError)):
            res["unjudged_numpy_degenerate"] += 1
            return None
        culprit = tree
        for n in G.walk(tree):
            o = objs.get(id(n))
            if o is not None and o not in subs and getattr(o, "_needsSampling", False):
                culprit = n
                break
        return (
            f"sample-raises:{type(exc).__name__}:{G.nodekey(culprit)}",
            f"{G.render_expr(tree)}: sampling raises {type(exc).__name__}: {str(exc)[:160]} where plain Python computes a value; {desc_in()}",
            {"route": "api"},
        )
    if status == "reject":
        return (f"unexpected-rejection:{G.nodekey(tree)}", f"{G.render_expr(tree)}: sample rejected ({exc}); {desc_in()}", {"route": "api"})
    if first_py_exc is not None and objs.get(id(first_py_exc[0])) is not None and objs[id(first_py_exc[0])] not in subs:
        # the raising sub-expression was never sampled (it sits in a container that is not sampled:
        # reported at the outcomes where Python yields a value)
        res["unjudged_unsampled_subexpression"] += 1
        return None
    if first_py_exc is not None:
        n, e = first_py_exc
        return (
            f"python-raises-scenic-yields:{type(e).__name__}:{G.nodekey(n)}",
            f"{G.render_expr(tree)}: plain Python raises {e!r} at {G.render_expr(n)} but sampling produced a value; {desc_in()}",
            {"route": "api"},
        )

    # ---- supports ----
    items = [(B.leafnode[i], o, vals[("L", i)]) for i, o in leaf_items] + sampled
    failing = set()
    for n, o, v in items:
        s = supports.get(id(n))
        if s is None or not _real(v):
            continue
        _, lo, hi = s
        if lo is None and hi is None:
            continue
        tol = SUP_TOL * max(1.0, abs(v))
        if (lo is not None and lo - tol <= v < lo) or (hi is not None and hi < v <= hi + tol):
            res["support_touching"] += 1  # outside by less than the tolerance: not judged
            continue
        if (lo is not None and v < lo) or (hi is not None and v > hi):
            failing.add(id(n))
            if any(id(c) in failing for c in G.children(n)):
                continue  # consequence of an operand's wrong support
            return (
                f"support:{G.nodekey(n)}:excludes-value",
                f"supportInterval({G.render_expr(n)}) = ({lo!r}, {hi!r}) does not contain the value {v!r}; {desc_in()}",
                {"route": "api"},
            )
        if v == lo or v == hi:
            res["support_values_on_bound"] += 1
        res["support_values_checked"] += 1
    return None


def rootobj_of(judged):
    return judged[-1][1]


def identity_form(n):
    """Name of the identity-element form of a binary node (x+0, v+0-vector, q*identity ...)."""
    sc = G.shortcut_of(n)
    if sc:
        return sc
    sa, sb = G.shape(n[2]), G.shape(n[3])
    if n[1] in ("+", "-") and sb in ("vec0", "tuple0"):
        return f"v{n[1]}zero-vector"
    if n[1] == "+" and sa in ("vec0", "tuple0"):
        return "zero-vector+v"
    if n[1] == "*" and sb == "identity":
        return "q*identity"
    if n[1] == "*" and sa == "identity":
        return "identity*q"
    return None


def value_signature(n, got):
    if isinstance(got, G.Unsampled) or "UNSAMPLED" in repr(got):
        kind = n[0] if n[0] in ("dct", "tup", "lst", "nt") else G.nodekey(n)
        if n[0] == "dct" or "dict(" in G.nodekey(n) or isinstance(got, dict) or (isinstance(got, (tuple, list)) and any(isinstance(x, dict) for x in got)):
            return "container:dict-random-values-not-sampled"
        return f"value:{kind}:unsampled-object-in-result"
    sc = G.shortcut_of(n)
    if sc == "x//1":
        return "value:floordiv-by-1-not-floored"
    if sc:
        return f"value:shortcut-{sc}"
    return f"value:{G.nodekey(n)}"


# ------------------------------------------------------------------------------------------
# compiled route
# ------------------------------------------------------------------------------------------


def compile_text(text):
    import scenic

    return scenic.scenarioFromString(text, mode2D=False)


def check_compiled(tree, res, api_info, require=None):
    from scenic.core.distributions import RejectionException

    text = G.render_program(tree, require)
    case = {"route": "compiled", "text": text, "require": list(require) if require else None}
    try:
        scenario = compile_text(text)
    except Exception as e:
        name = type(e).__name__
        msg = str(e)
        for en, frag in EXPECTED_REFUSALS:
            if name == en and frag in msg:
                res["refused"]["literal-container-indexed-by-random-value"] += 1
                return
        res["violations"].append((f"compiled-construct-raises:{name}:{G.nodekey(tree)}", f"compiling\n{text}raises {name}: {msg[:300]}", case))
        return
    res["compiled_programs"] += 1
    leafids = sorted({n[2] for n in G.walk(tree) if n[0] == "L"})
    derived = [n for n in G.walk(tree) if n[0] == "M"]

    def once():
        del G.PROBE[:]
        try:
            scene, _ = scenario.generate(maxIterations=1, verbosity=0)
        except RejectionException as e:
            return ("reject", None, list(G.PROBE), e)
        except Exception as e:
            return ("raise", None, list(G.PROBE), e)
        return ("ok", scene, list(G.PROBE), None)

    seen = set()

    def report(sig, desc):
        if sig not in seen:
            seen.add(sig)
            res["violations"].append((sig, desc, case))

    with value_seam():
        for ex, (status, scene, probe, exc), stats in explorer.explore(once, max_executions=MAX_EXEC):
            res["compiled_execs"] += 1
            if require is not None:
                op, c = require
                if len(probe) != 1:
                    if status == "raise" and api_info["py_raises"]:
                        res["compiled_unjudged_raise"] += 1
                        continue
                    report(f"compiled-require:closure-evaluated-{len(probe)}-times", f"{text}requirement evaluated {len(probe)} times, outcome {status} {exc!r}")
                    continue
                result, seenvals = probe[0]
                vals = Vals()
                xs = G.to_plain(seenvals[0])
                k = 1
                for i in leafids:
                    vals[("L", i)] = G.to_plain(seenvals[k])
                    k += 1
                for n in derived:
                    vals[("M", n[2])] = G.to_plain(seenvals[k])
                    k += 1
                try:
                    exp = G.pyeval(tree, vals)
                except Exception as e:
                    report(f"compiled-require:python-raises:{G.nodekey(tree)}", f"{text}closure saw X={xs!r} but plain Python raises {e!r} on {dict(vals)!r}")
                    continue
                bad = G.same(exp, xs, G.REL)
                if bad:
                    report(f"compiled-require-value:{G.nodekey(tree)}", f"{text}inside the requirement X={xs!r}, plain Python gives {exp!r} from {dict(vals)!r}")
                    continue
                want = PYCMP[op](exp, c)
                if bool(result) != bool(want) or (status == "ok") != bool(want) or status == "raise":
                    report(f"compiled-require-verdict:{op}", f"{text}X={xs!r}: comparison gave {result!r}, expected {want!r}; scene {status} {exc!r}")
                    continue
                res["require_accepted" if want else "require_rejected"] += 1
                continue
            if status == "raise":
                if api_info["py_raises"]:
                    res["compiled_unjudged_raise"] += 1
                else:
                    report(f"compiled-sample-raises:{type(exc).__name__}:{G.nodekey(tree)}", f"{text}generate() raises {type(exc).__name__}: {str(exc)[:200]}")
                continue
            if status == "reject":
                if any(n[1] in ("drng", "star") for n in derived):
                    res["compiled_unjudged_reject"] += 1
                else:
                    report(f"compiled-unexpected-rejection:{G.nodekey(tree)}", f"{text}rejected: {exc}")
                continue
            vals = Vals()
            P = scene.params
            for i in leafids:
                vals[("L", i)] = G.to_plain(P[f"leaf{i}"])
            for n in derived:
                vals[("M", n[2])] = G.to_plain(P[f"m{n[2]}"])
            skip = False
            for n in derived:
                try:
                    kidvals = [G.pyeval(k, vals) for k in n[3:]]
                except Exception:
                    skip = True
                    break
                v = vals[("M", n[2])]
                if not all(_all_real(k) for k in kidvals) or not _all_real(v):
                    skip = True
                    break
                bad = G.member_ok(n, v, kidvals)
                if bad:
                    report(f"compiled-member:{G.nodekey(n)}", f"{text}value of {G.render_derived(n)} {bad}; {dict(vals)!r}")
                    skip = True
                    break
            if skip:
                res["compiled_unjudged_domain"] += 1
                continue
            try:
                exp = G.pyeval(tree, vals)
            except G.GimbalLock:
                res["skipped_gimbal_lock"] += 1
                continue
            except Exception as e:
                report(f"compiled-python-raises-scenic-yields:{type(e).__name__}:{G.nodekey(tree)}", f"{text}plain Python raises {e!r} from {dict(vals)!r} but a scene was generated with p={P['p']!r}")
                continue
            tol = G.GEO if any(node_tol(m) == G.GEO for m in G.walk(tree)) else G.REL
            for label, act in (("param", P["p"]), ("property", scene.objects[0].foo)):
                act = G.to_plain(act)
                bad = G.same(exp, act, tol)
                if bad:
                    low = lowest_blame(tree)
                    sig = value_signature(low, act)
                    report(f"compiled-{label}-{sig}", f"{text}{label} value {act!r}, plain Python gives {exp!r} from {dict(vals)!r} ({bad})")
                    break
            else:
                res["compiled_values_checked"] += 1


def lowest_blame(tree):
    """For compiled-route signatures: the shortcut node if the tree has one, else the root."""
    for m in G.walk(tree):
        if G.shortcut_of(m) == "x//1":
            return m
    for m in G.walk(tree):
        if m[0] == "dct":
            return m
    return tree


# ------------------------------------------------------------------------------------------
# class defaults referring to self / lazily evaluated specifier arguments (compiled only)
# ------------------------------------------------------------------------------------------


def _zero_divisor(n):
    for m in G.walk(n):
        if m[0] == "bin" and m[1] in ("/", "//", "%", "divmod") and m[3][0] == "c" and m[3][1] == 0:
            return True
        if m[0] == "bin" and m[1] == "**" and m[2][0] == "c" and m[2][1] == 0:
            return True
    return False


def pseudo_exprs(pseudo, tier, extra_leaf=True):
    """Depth-1 expressions over a pseudo leaf (all scalar productions that apply)."""
    A = G.alphabet("outer")
    only = {p.name for p in G.PRODUCTIONS if p.name.startswith(("bin", "un-", "round", "call-f1", "call-hypot", "call-max", "call-pair", "cont-", "vec", "idx-literal"))} - {"cont-tuple-vec", "vec+", "vec-", "vec*s", "s*vec", "vec/s"}
    older = {"S": [("L", "Rz")]} if extra_leaf else {}
    consts = dict(A["consts"])
    consts["CS"] = [0, 1, 2, -1.5] if tier == "thorough" else [1, 2, -1.5]
    out = G.expand({"S": list(pseudo)}, older, consts, only=only, allow_ff=False)
    exprs = []
    for t in out:
        for fam, node in out[t]:
            if not _zero_divisor(node):
                exprs.append((fam, G.number(node)))
    return exprs


def self_items(tier):
    exprs = pseudo_exprs([("P", "a")], tier)
    groups = [exprs[i : i + 8] for i in range(0, len(exprs), 8)]
    a_defs = [("leaf", "Rp"), ("leaf", "Ui"), ("const", 1.5)]
    overrides = [None, ("const", 7), ("leaf", "Dp")]
    items = []
    configs = [(a, o, order, sub) for a in a_defs for o in overrides for order in ("before", "after") for sub in (False, True)]
    for gi, g in enumerate(groups):
        for ci, cfg in enumerate(configs):
            if tier != "thorough" and not (gi == 0 or ci == (gi % len(configs))):
                continue
            items.append(("self", (cfg, g)))
    return items


def render_self(cfg, group):
    (akind, aval), override, order, sub = cfg
    lines = [G.PRELUDE]
    leafids = sorted({n[2] for _, e in group for n in G.walk(e) if n[0] == "L"})
    for i in leafids:
        name = next(n[1] for _, e in group for n in G.walk(e) if n[0] == "L" and n[2] == i)
        lines.append(f"L{i} = {G.render_leaf(G.LEAVES[name][1])}")
        lines.append(f"param leaf{i} = L{i}")
    if akind == "leaf":
        lines.append(f"A0 = {G.render_leaf(G.LEAVES[aval][1])}")
        lines.append("param a0 = A0")
        adef = "A0"
    else:
        adef = repr(aval)
    if override and override[0] == "leaf":
        lines.append(f"A1 = {G.render_leaf(G.LEAVES[override[1]][1])}")
        lines.append("param a1 = A1")
    lines.append("class K(Object):")
    if order == "after":
        lines.append(f"    a: {adef}")
    for j, (_, e) in enumerate(group):
        lines.append(f"    b{j}: {G.render_expr(e)}")
    lines.append("    chain: (self.b0, self.a)")
    if order == "before":
        lines.append(f"    a: {adef}")
    cls = "K"
    if sub:
        lines.append("class K2(K):")
        lines.append("    a: 9.5")
        cls = "K2"
    spec = ""
    if override:
        spec = " with a " + ("A1" if override[0] == "leaf" else repr(override[1])) + ","
    lines.append(f"ego = new {cls}{spec} with allowCollisions True")
    return "\n".join(lines) + "\n"


def check_self(payload, res):
    cfg, group = payload
    (akind, aval), override, order, sub = cfg
    text = render_self(cfg, group)
    case = {"route": "self-default", "text": text}
    try:
        scenario = compile_text(text)
    except Exception as e:
        if len(group) > 1:
            for g in group:
                check_self((cfg, [g]), res)
            return
        res["violations"].append((f"self-default-construct-raises:{type(e).__name__}:{G.nodekey(group[0][1])}", f"compiling\n{text}raises {type(e).__name__}: {str(e)[:300]}", case))
        return
    res["self_programs"] += 1

    def once():
        try:
            scene, _ = scenario.generate(maxIterations=1, verbosity=0)
        except Exception as e:
            return ("raise", None, e)
        return ("ok", scene, None)

    seen = set()
    with value_seam():
        for ex, (status, scene, exc), stats in explorer.explore(once, max_executions=MAX_EXEC):
            res["self_execs"] += 1
            if status != "ok":
                if len(group) > 1:
                    # attribute: re-run one expression at a time
                    for g in group:
                        check_self((cfg, [g]), res)
                    return
                sig = f"self-default-sample-raises:{type(exc).__name__}:{G.nodekey(group[0][1])}"
                if sig not in seen:
                    seen.add(sig)
                    try:
                        raise exc
                    except ZeroDivisionError:
                        res["self_python_raises"] += 1  # random self.a hit a zero divisor: Python raises too
                    except Exception:
                        res["violations"].append((sig, f"{text}generate() raises {exc!r}", case))
                continue
            obj = scene.objects[0]
            P = scene.params
            # final value of a
            if override:
                want_a = P["a1"] if override[0] == "leaf" else override[1]
            elif sub:
                want_a = 9.5
            else:
                want_a = P["a0"] if akind == "leaf" else aval
            a = G.to_plain(obj.a)
            if G.same(G.to_plain(want_a), a):
                sig = "self-default:base-property-value"
                if sig not in seen:
                    seen.add(sig)
                    res["violations"].append((sig, f"{text}a = {a!r}, specified {want_a!r}", case))
                continue
            vals = Vals({("P", "a"): a})
            for k, v in P.items():
                if k.startswith("leaf"):
                    vals[("L", int(k[4:]))] = G.to_plain(v)
            for j, (fam, e) in enumerate(group):
                act = G.to_plain(getattr(obj, f"b{j}"))
                try:
                    exp = G.pyeval(e, vals)
                except Exception as pe:
                    sig = f"self-default-python-raises:{G.nodekey(e)}"
                    if sig not in seen:
                        seen.add(sig)
                        res["violations"].append((sig, f"{text}b{j}: plain Python raises {pe!r} for a={a!r} but the object has {act!r}", case))
                    continue
                bad = G.same(exp, act)
                if bad:
                    sig = "self-default-" + value_signature(lowest_blame(e), act)
                    if sig not in seen:
                        seen.add(sig)
                        res["violations"].append((sig, f"{text}b{j} = {act!r} but {G.render_expr(e)} with the final a={a!r} is {exp!r} ({bad})", case))
                else:
                    res["self_values_checked"] += 1
                    if override or sub:
                        res["self_values_checked_overridden"] += 1
            chain = G.to_plain(obj.chain)
            b0 = G.to_plain(obj.b0)
            if "UNSAMPLED" in repr(b0):
                continue  # b0 itself already reported (unsampled dict values)
            if G.same((b0, a), chain):
                sig = "self-default:chained-default"
                if sig not in seen:
                    seen.add(sig)
                    res["violations"].append((sig, f"{text}chain = {chain!r}, final (b0, a) = {(G.to_plain(obj.b0), a)!r}", case))


def delayed_items(tier):
    items = []
    Ks = [("c", 0.33), ("L", "Rp", 0)]
    for K in Ks:
        pseudo = [("D", "f", K), ("D", "i", K)]
        exprs = pseudo_exprs(pseudo, tier, extra_leaf=False)
        groups = [exprs[i : i + 8] for i in range(0, len(exprs), 8)]
        for pi, pos in enumerate(("const", "random")):
            for gi, g in enumerate(groups):
                if tier != "thorough" and (gi + pi) % 2:
                    continue
                items.append(("delayed", (K, pos, "relative", g)))
        items.append(("delayed", (K, "random", "field", groups[0][:2])))
    return items


def render_delayed(K, pos, facing, group):
    lines = [G.PRELUDE, 'vf = VectorField("vf", G.fieldfn)']
    if K[0] == "L":
        lines.append(f"L0 = {G.render_leaf(G.LEAVES[K[1]][1])}")
        lines.append("param leaf0 = L0")
    if pos == "random":
        lines.append("PX = Range(0.5, 2.5)")
        position = "(PX @ 2)"
    else:
        position = "(1 @ 2)"
    k = G.render_expr(K)
    face = f"facing (({k}) relative to vf)" if facing == "relative" else "facing vf"
    specs = [f"at {position}", face, f"with dbase (({k}) relative to vf).yaw", f"with ibase int(100 * (({k}) relative to vf).yaw)"]
    for j, (_, e) in enumerate(group):
        specs.append(f"with d{j} {G.render_expr(e)}")
    lines.append("ego = new Object " + ", ".join(specs))
    return "\n".join(lines) + "\n"


def check_delayed(payload, res):
    K, pos, facing, group = payload
    text = render_delayed(K, pos, facing, group)
    case = {"route": "delayed-argument", "text": text}
    try:
        scenario = compile_text(text)
    except Exception as e:
        if len(group) > 1:
            for g in group:
                check_delayed((K, pos, facing, [g]), res)
            return
        res["violations"].append((f"delayed-construct-raises:{type(e).__name__}:{G.nodekey(group[0][1])}", f"compiling\n{text}raises {type(e).__name__}: {str(e)[:300]}", case))
        return
    res["delayed_programs"] += 1

    def once():
        try:
            scene, _ = scenario.generate(maxIterations=1, verbosity=0)
        except Exception as e:
            return ("raise", None, e)
        return ("ok", scene, None)

    seen = set()

    def report(sig, desc):
        if sig not in seen:
            seen.add(sig)
            res["violations"].append((sig, desc, case))

    with value_seam():
        for ex, (status, scene, exc), stats in explorer.explore(once, max_executions=MAX_EXEC):
            res["delayed_execs"] += 1
            if status != "ok":
                if len(group) > 1:
                    for g in group:
                        check_delayed((K, pos, facing, [g]), res)
                    return
                report(f"delayed-sample-raises:{type(exc).__name__}:{G.nodekey(group[0][1])}", f"{text}generate() raises {exc!r}")
                continue
            obj = scene.objects[0]
            p = obj.position
            kval = scene.params["leaf0"] if K[0] == "L" else K[1]
            fieldval = G.fieldfn_plain(p.x, p.y)
            want_heading = fieldval + (kval if facing == "relative" else 0)
            dh = math.remainder(obj.heading - want_heading, math.tau)
            if abs(dh) > 1e-9:
                report(f"delayed:facing-{facing}-heading", f"{text}heading {obj.heading!r} at final position {tuple(p)!r}, field there {fieldval!r}, offset {kval!r}")
                continue
            want_d = (G.POri.heading(fieldval) + kval).yaw
            if abs(math.remainder(obj.dbase - want_d, math.tau)) > 1e-9:
                report("delayed:relative-to-field-value", f"{text}(K relative to vf).yaw = {obj.dbase!r} at final position {tuple(p)!r}, expected {want_d!r}")
                continue
            if obj.ibase != int(100 * obj.dbase):
                report("delayed:function-of-delayed-value", f"{text}int(100 * d) = {obj.ibase!r} with d = {obj.dbase!r}")
                continue
            known = {}
            vals = Vals()
            vals["D"] = {"f": obj.dbase, "i": obj.ibase}  # as sampled (numpy float64 stays numpy)
            for j, (fam, e) in enumerate(group):
                act = G.to_plain(getattr(obj, f"d{j}"))
                try:
                    exp = G.pyeval(e, vals)
                except Exception as pe:
                    report(f"delayed-python-raises:{G.nodekey(e)}", f"{text}d{j}: plain Python raises {pe!r} but the object has {act!r}")
                    continue
                bad = G.same(exp, act)
                if bad:
                    report("delayed-" + value_signature(lowest_blame(e), act), f"{text}d{j} = {act!r} but {G.render_expr(e)} with the lazily evaluated operand {vals['D']!r} is {exp!r} ({bad})")
                else:
                    res["delayed_values_checked"] += 1


# ------------------------------------------------------------------------------------------
# work items
# ------------------------------------------------------------------------------------------


ROUTE = r"^(compiled-(?:param-|property-)?|self-default-|delayed-)?"
REFINE = [
    # (pattern on the raw signature, pattern on the description or None, root-cause signature)
    (r"support:(hypot\(.*\)|.*\.norm\(\)):excludes-value", None, "support:hypot-treated-as-monotonic"),
    (r"support:neg\(.*\):raises-TypeError", None, "support:neg-of-unbounded-operand-raises"),
    (r"support:abs\(.*\):raises-TypeError", None, "support:abs-of-unbounded-operand-raises"),
    (r"construct-raises:TypeError:.*", r"issubclass\(\) arg 1 must be a class", "construct-raises:TypeError:operator-on-distribution-with-typing-valueType"),
    (r"construct-raises:TypeError:.*", r"'NoneType' object is not iterable", "construct-raises:TypeError:repr-of-unweighted-DiscreteRange"),
    (r"sample-raises:AttributeError:.*", r"has no attribute '__r[a-z]+__'", "sample-raises:AttributeError:operand-type-lacks-reflected-operator"),
    (r"construct-raises:RandomControlFlowError:vecexpr\.(distanceTo|angleTo)\(.*", None, "construct-raises:RandomControlFlowError:scalar-method-of-vector-with-random-coordinates"),
    (r"sample-raises:RandomControlFlowError:vec\(.*", r"\)\.(distanceTo|angleTo)\(", "sample-raises:RandomControlFlowError:scalar-method-of-vector-with-random-coordinates"),
    (r"value:vecexpr\.(dot|distanceTo|angleTo)\(.*\):unsampled-object-in-result", None, "value:unsampled-result:scalar-method-of-vector-with-random-coordinates"),
    (r"support:.*:excludes-value", r"hypot\(|\.norm\(\)", "support:hypot-treated-as-monotonic"),
    (r"python-raises-scenic-yields:TypeError:\(expr//1\)", None, "value:floordiv-by-1-not-floored"),
    (r"construct-raises:TypeError:.*=.*", r"handler\(\) got an unexpected keyword argument", "construct-raises:TypeError:keyword-operand-of-lifted-vector-method"),
    (r"value:.*", r"NotImplemented \(NotImplementedType\)", "value:NotImplemented-no-reflected-operator-fallback"),
]


def refine(sig, desc):
    """Map a raw signature to a root-cause signature where the cause is recognised."""
    import re

    m = re.match(ROUTE, sig)
    prefix = m.group(1) or ""
    core = sig[len(prefix) :]
    for pat, dpat, name in REFINE:
        if re.fullmatch(pat, core) and (dpat is None or re.search(dpat, desc)):
            return prefix + name
    return sig


def new_result():
    res = collections.defaultdict(int)
    res["violations"] = []
    res["refused"] = collections.Counter()
    res["shortcut_taken"] = collections.Counter()
    res["families"] = collections.Counter()
    res["identity_forms"] = collections.Counter()
    return res


def check_item(item):
    kind, payload = item
    res = new_result()
    t0 = time.process_time()
    if kind == "tree":
        idx, fam, d, tree, compiled, requires = payload
        res["trees"] += 1
        info = check_api(tree, res)
        if info is not None:
            res["families"][fam] += 1
            if compiled and res["violations"]:
                res["compiled_skipped_api_route_already_failing"] += 1
            elif compiled:
                if risky(tree):
                    res["compiled_excluded_discontinuity_over_geometry"] += 1
                else:
                    check_compiled(tree, res, info)
                    for req in requires:
                        check_compiled(tree, res, info, require=req)
        for v in res["violations"]:
            v[2].update(kind="tree", tree=G.to_json(tree), family=fam, index=idx)
    elif kind == "self":
        check_self(payload, res)
        for v in res["violations"]:
            v[2].update(kind="self")
    elif kind == "delayed":
        check_delayed(payload, res)
        for v in res["violations"]:
            v[2].update(kind="delayed")
    res["violations"] = [(refine(sig, desc), desc, case) for sig, desc, case in res["violations"]]
    res["cpu"] = time.process_time() - t0
    return dict(res)


def check_chunk(chunk):
    warnings.simplefilter("ignore")  # numpy RuntimeWarnings of inf/nan arithmetic on sampled values
    out = new_result()
    for it in chunk:
        merge(out, check_item(it))
    return dict(out)


def merge(acc, r):
    for k, v in r.items():
        if k == "violations":
            acc[k].extend(v)
        elif isinstance(v, collections.Counter):
            acc[k].update(v)
        else:
            acc[k] += v


def plan(tier):
    trees = G.enumerate_trees(tier)
    per_depth = collections.Counter(d for _, d, _ in trees)
    seen_depth = collections.Counter()
    nreq = 30 if tier != "thorough" else 150
    items = []
    reqcount = 0
    for idx, (fam, d, tree) in enumerate(trees):
        compiled = seen_depth[d] < per_depth[d] // COMPILED_FRACTION
        seen_depth[d] += 1
        requires = ()
        if compiled and d == 1 and fam.startswith(("bin", "un-", "call-f1", "attr-x")) and not fam.startswith("bindivmod") and reqcount < nreq:
            requires = tuple((op, 1) for op in CMPS)
            reqcount += 1
        items.append(("tree", (idx, fam, d, tree, compiled, requires)))
    return items, per_depth


def self_test():
    """The harness must see a wrong value, a wrong support and an unsampled object."""
    t = ("bin", "//", ("L", "Rp", 0), ("c", 2))
    vals = Vals({("L", 0): 2.1})
    if G.pyeval(t, vals) != 1.0 or G.same(1.0, 1.0000001) is None or G.same((1, 2.0), (1, 2)) is not None:
        raise HarnessError("oracle self-test failed")
    if G.same(G.PVec(1, 2, 0), G.PVec(1, 2, 1e-3)) is None or G.same({"a": 1}, {"a": G.Unsampled("x")}) is None:
        raise HarnessError("oracle self-test failed (containers)")
    with value_seam():
        runs, _ = explorer.explore_all(lambda: (random.uniform(0, 1), random.gauss(0, 1), random.randint(1, 3)))
    if len({r for _, r in runs}) != 5 * 5 * 3:
        raise HarnessError("value seam does not enumerate the lattice")
    if isinstance(random.random(), seams.LazyUniform) or random.uniform.__module__ != "random":
        raise HarnessError("value seam not restored")


def run(ctx):
    seams.rng_selftest()
    self_test()
    G.scenic_funcs()
    items, per_depth = plan(ctx.tier)
    items += self_items(ctx.tier) + delayed_items(ctx.tier)
    items = ctx.rotate(items)
    chunk = 8
    chunks = [items[i : i + chunk] for i in range(0, len(items), chunk)]
    total = new_result()
    for r in ctx.pmap(check_chunk, chunks, chunksize=4):
        merge(total, r)
    for sig, desc, case in total["violations"]:
        ctx.violation(sig, desc, case)
    if total["capped"]:
        ctx.capped = True
        ctx.cov["cap"] = f"{total['capped']} trees hit max_executions={MAX_EXEC}"

    fam = total["families"]

    def famcount(prefix, pattern):
        return sum(v for k, v in fam.items() if k.split(":")[0] == prefix and k.split(":")[1] == pattern)

    ops = {}
    for op in G.BINOPS:
        ops[op] = {"forward": famcount(f"bin{op}", "rc"), "reverse": famcount(f"bin{op}", "cr"), "both_random": famcount(f"bin{op}", "rr")}
    unary = {u: sum(v for k, v in fam.items() if k.startswith(f"un-{u}:")) for u in G.UNOPS}
    containers = {c: sum(v for k, v in fam.items() if k.startswith(f"cont-{c}:")) for c in ("tuple", "list", "dict", "namedtuple")}
    sc = dict(total["shortcut_taken"])
    guards = {
        "trees with >= 2 distinct values": total["nontrivial"],
        "node values checked": total["node_values_checked"],
        "support values checked": total["support_values_checked"],
        "support nodes with a bound": total["support_nodes_bounded"],
        "compiled programs": total["compiled_programs"],
        "compiled values checked": total["compiled_values_checked"],
        "requirements accepted": total["require_accepted"],
        "requirements rejected": total["require_rejected"],
        "self-default values checked": total["self_values_checked"],
        "self-default values checked with overridden base": total["self_values_checked_overridden"],
        "delayed-argument values checked": total["delayed_values_checked"],
        "membership checks": total["membership_checked"],
        "outcomes where Python raises": total["outcomes_python_raises"],
        "star-unpacking trees": sum(v for k, v in fam.items() if k.startswith("star")),
        "attribute trees": sum(v for k, v in fam.items() if k.startswith("attr-")),
        "indexing trees": sum(v for k, v in fam.items() if k.startswith(("idx", "slice"))),
        "lifted call trees with keyword operands": sum(v for k, v in fam.items() if "-kw" in k or "allkw" in k),
        "method call trees": sum(v for k, v in fam.items() if k.startswith("meth-")),
        "vector arithmetic trees": sum(v for k, v in fam.items() if k.startswith(("vec", "s*vec"))),
        "orientation arithmetic trees": sum(v for k, v in fam.items() if k.startswith(("ori", "s+ori", "euler"))),
    }
    for op, d in ops.items():
        for k, v in d.items():
            guards[f"operator {op} {k}"] = v
    for u, v in unary.items():
        guards[f"unary {u}"] = v
    for c, v in containers.items():
        guards[f"container {c}"] = v
    forms = dict(total["identity_forms"])
    for name in G.SHORTCUTS.values():
        for kind in ("int-valued", "float-valued"):
            guards[f"identity form {name}:{kind} judged"] = forms.get(f"{name}:{kind}", 0)
    for name in ("v+zero-vector", "v-zero-vector", "zero-vector+v", "q*identity", "identity*q"):
        guards[f"identity form {name} judged"] = forms.get(name, 0)
    empty = [k for k, v in guards.items() if not v]
    # the dict container kind is a known defect candidate: it is *constructed* (counted in
    # families only when construction succeeds), so no exemption is needed here
    if empty:
        raise HarnessError("vacuous: " + "; ".join(empty))

    ntrees = total["trees"]
    ctx.cov.update(
        evaluations=total["execs"] + total["compiled_execs"] + total["self_execs"] + total["delayed_execs"],
        distinct_nontrivial=total["nontrivial"],
        trees=ntrees,
        trees_per_depth={str(k): v for k, v in sorted(per_depth.items())},
        api_outcomes=total["execs"],
        node_values_checked=total["node_values_checked"],
        membership_checked=total["membership_checked"],
        outcomes_python_raises_and_scenic_too=total["outcomes_python_raises"],
        rejections_expected=total["rejections_expected"],
        support_nodes_bounded=total["support_nodes_bounded"],
        support_values_checked=total["support_values_checked"],
        skipped_touching=total["support_touching"],
        support_values_on_bound=total["support_values_on_bound"],
        skipped_gimbal_lock=total["skipped_gimbal_lock"],
        compiled_programs=total["compiled_programs"],
        compiled_outcomes=total["compiled_execs"],
        compiled_values_checked=total["compiled_values_checked"],
        compiled_unjudged={"raise_where_python_may_raise": total["compiled_unjudged_raise"], "rejection_with_random_discrete_range": total["compiled_unjudged_reject"], "non_real_parameter": total["compiled_unjudged_domain"], "discontinuity_over_geometry": total["compiled_excluded_discontinuity_over_geometry"]},
        requirements={"accepted": total["require_accepted"], "rejected": total["require_rejected"]},
        self_defaults={"programs": total["self_programs"], "outcomes": total["self_execs"], "values_checked": total["self_values_checked"], "with_overridden_base": total["self_values_checked_overridden"], "python_raises": total["self_python_raises"]},
        delayed_arguments={"programs": total["delayed_programs"], "outcomes": total["delayed_execs"], "values_checked": total["delayed_values_checked"]},
        refused=dict(total["refused"]),
        excluded_nonreal_parameter=total["excluded_nonreal_parameter"],
        unjudged={
            "numpy_scalar_operand_with_inf_nan_or_complex_result": total["unjudged_numpy_degenerate"],
            "python_raises_in_a_subexpression_scenic_never_sampled": total["unjudged_unsampled_subexpression"],
            "compiled_route_skipped_api_route_already_failing": total["compiled_skipped_api_route_already_failing"],
        },
        both_raise_different_exception_type=total["both_raise_different_exception_type"],
        operators=ops,
        unary=unary,
        containers=containers,
        simplifications_taken=sc,
        identity_forms_judged=forms,
        cpu_seconds=round(total["cpu"], 1),
        bounds={"tier": ctx.tier, "max_depth": max(per_depth), "max_leaves": 3, "lattice": {"uniform": list(UNI), "gauss_z": list(GAUSS), "random": list(RND)}, "max_executions_per_tree": MAX_EXEC, "compiled_fraction_per_depth": f"1/{COMPILED_FRACTION}"},
        rule="all well-typed trees of gen/expr_c05.py's productions up to the tier's depth over the per-level alphabets "
        "(depth 1: full alphabet; nested levels: reduced alphabets, exactly one non-leaf child per node), families "
        "interleaved simplest first; x every outcome of the discrete leaves (exact RNG exploration) and the 5-point "
        "lattice of each continuous leaf; an evaluation = one complete outcome of one tree/program; non-trivial = tree "
        "whose root takes >= 2 distinct values over its outcomes",
        samples=[{"family": it[1][1], "depth": it[1][2], "expr": G.render_expr(it[1][3])} for it in items if it[0] == "tree"][:3]
        + [{"family": it[1][1], "depth": it[1][2], "expr": G.render_expr(it[1][3])} for it in items[len(items) // 2 : len(items) // 2 + 2] if it[0] == "tree"],
    )
    ctx.assumptions += [
        "CPython's random.randint/choices/choice reduce to Random.random()/_randbelow() (rng_selftest at start-up)",
        "Scenic draws continuous values only through random.uniform / random.gauss / random.random (module attributes), which the value seam answers from 5-point lattices",
        "plain-Python oracle: Python's own operators on the sampled operand values; vectors/orientations by the plain model in gen/expr_c05.py (component-wise arithmetic, planar rotation, scipy Rotation for intrinsic ZXY Euler angles)",
    ]


def replay(ctx, case):
    kind = case.get("kind")
    res = new_result()
    if kind == "tree":
        tree = G.from_json(case["tree"])
        info = check_api(tree, res)
        if info is not None and case.get("route") == "compiled":
            req = case.get("require")
            check_compiled(tree, res, info, require=tuple(req) if req else None)
    else:
        # self / delayed programs are replayed from their text
        replay_text(case, res)
    for sig, desc, c in res["violations"]:
        c.update({k: v for k, v in case.items() if k not in c})
        ctx.violation(refine(sig, desc), desc, c)


def replay_text(case, res):
    """Re-run a self-default / delayed program: regenerate the item list and match by text."""
    for tier in ("quick", "thorough"):
        for it in self_items(tier) + delayed_items(tier):
            kind, payload = it
            text = render_self(*payload) if kind == "self" else render_delayed(*payload)
            if text == case.get("text"):
                (check_self if kind == "self" else check_delayed)(payload, res)
                return
            # single-expression programs produced by the attribution fallback
            group = payload[-1]
            for g in group:
                p1 = payload[:-1] + ([g],)
                text = render_self(*p1) if kind == "self" else render_delayed(*p1)
                if text == case.get("text"):
                    (check_self if kind == "self" else check_delayed)(p1, res)
                    return
    raise HarnessError("replay: program text not found in the enumeration")
