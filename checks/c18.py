"""C18 — encoded scenes and simulations decode and replay to the same thing.

FAULT ENUMERATION.  For every program of gen/c18_gen.py and every scene of it (all RNG
outcomes of generate() through the explorer; a 5-point lattice per continuous draw; fixed
seeds 0..k-1 only for gauss / numpy based sampling the RNG seam cannot enumerate):

  round trip   sceneFromBytes(sceneToBytes(s)) has the same value for every property of
               every object and every global parameter (floats by repr), also when decoded
               by a scenario freshly compiled from the same text; re-encoding gives the
               same bytes
  compilations decode(encode(s)) by ANY compilation of the same program + options equals s: the
               encoding compilation, one recompilation per iteration order of every identity-hashed
               `set` created while the scenario is built (set_order_seam + explorer; the seam's
               installation is asserted, 0 choice points = no such set), and fresh interpreters with
               other PYTHONHASHSEEDs.  Compared: properties and params, the sampled values of the
               random module-level globals seen by behaviours / monitors (x_ programs: 2..6 globals
               with disjoint ranges reached only from behaviours / monitors / requirements / params
               and mixtures), the requirements re-checked on the decoded sample, a simulation of the
               decoded scene, and the replay of a recorded simulation on that compilation
  refusal      bytes of every other program, of the same text compiled with other options
               (mode2D, param override, an extra statement) and EVERY proper prefix of the
               encoding must raise SerializationError
  corruption   every single byte edit (each offset x {^0x01, ^0x80, =0x00, =0xFF}) gives a
               scene or SerializationError, never another exception, a hang or a big
               allocation; an edit inside the header must be refused
  replay       every RNG outcome of a simulation in the deterministic ScriptedSimulator is
               recorded and replayed (getReplay and simulationToBytes/FromBytes, original and
               recompiled scenario) under two OTHER RNG paths: same trajectory, actions,
               records, termination
  chains       a simulation produced by a replay is a simulation: from recorded runs, breadth first
               over sequences (depth 3 / 4) of {replay the current encoding for fewer / the same /
               more steps} x {divergence checking off / on} x {first / last RNG path for a continued
               run}, alternately through simulationFromBytes on the recompiled scenario (scene decoded
               and re-encoded) and simulate(replay=getReplay()); states with equal (encoding, steps,
               flag) are expanded once.  Each step: the replay completes, reproduces the run it was
               encoded from (whole view for equal length, common prefix otherwise), and an
               equal-length replay re-encodes to the very bytes it was replayed from
  divergence   recordings with enableDivergenceCheck; replay perturbing each dynamic
               property component of each object at each step by +-delta:
               DivergenceError <=> |delta| > tolerance, both signs

The oracle is the documentation: Scenario.sceneFromBytes / simulationFromBytes raise
SerializationError "if the scene could not be properly decoded", docs/api.rst says the
deserialization APIs "can be used with untrusted data", Simulation.valuesHaveDiverged
promises "the distance between the actual and expected values is greater than
divergenceTolerance".  models/codec_c18.py only labels which field a fault hit (and states
the narrowest-width rule of the int encoding, checked on single values).

Not judged (counted in the coverage instead): a corrupted REPLAY whose bytes decode to a wrong
but well-formed value on which the program fails later, outside the decoding code
(`rc_downstream`); a truncated replay that ends on a value boundary (documented: the run
continues unscripted).  Decoding is a function of the bytes, so scenes of one program with
identical encodings are fault-enumerated once (`duplicate_encodings`).  A decode still
computing after FAST_TIMEOUT CPU seconds is re-run with DECODE_TIMEOUT before it is called a
hang; after HANG_REPEATS confirmed hangs at the same (offset, edit) of a program the later
scenes of that program skip that edit (`hang_edits_skipped`, then `exhaustive` is false).
"""

from __future__ import annotations

import hashlib
import json
import math
import os
import random
import re
import resource
import signal
import subprocess
import sys
import time

from mc import dyn, explorer, seams
from mc.explorer import HarnessError, OutOfFragment
from gen import c18_gen as gen
from models import codec_c18 as codec

ID = "C18"
LEVEL = "fault_enumeration"

LATTICE_N = 5
SEEDS = {"quick": 3, "thorough": 8}
ENUM_BUDGET = 300.0  # seconds per program for generating its scenes
MAX_SCENES = 4000  # per program; the family is built to stay far below (cap => HarnessError)
DECODE_TIMEOUT = 5.0  # CPU seconds: a decode (normally < 1 ms) still computing after this long is a hang
FAST_TIMEOUT = 1.0  # first look; a decode exceeding it is re-run with DECODE_TIMEOUT before it is called a hang
REPLAY_FAULT_RECORDINGS_DIV = {"quick": 1, "thorough": 2}  # same, for recordings with divergence data (long, homogeneous)
REPLAY_FAULT_RECORDINGS = {"quick": 2, "thorough": 30}  # per program: the first recordings (enumeration order) get every replay fault
DIV_SHARDS = {"quick": 4, "thorough": 12}  # slices of the perturbation points of a divergence program (parallelism only)
CHAIN_DEPTH = {"quick": 3, "thorough": 4}  # generations of replay-of-replay explored from a recorded run
CHAIN_ROOTS = {"quick": 1, "thorough": 3}  # recordings per program (enumeration order) that are roots of chains
CHAIN_MAX_STATES = 3000
SET_ORDER_CAP = {"quick": 120, "thorough": 720}  # compilations per program under different set iteration orders
FRESH_PROCESS_HASHSEEDS = {"quick": (1,), "thorough": (1, 2, 3)}  # PYTHONHASHSEED of the fresh-process compilations (the run itself uses 0)
HANG_REPEATS = 2  # after this many confirmed hangs at the same (offset, edit) of a program, later scenes skip that edit
RSS_GROWTH_LIMIT_KB = 400 * 1024  # a single decode growing the process by more is reported
EDITS = (("xor01", lambda b: b ^ 0x01), ("xor80", lambda b: b ^ 0x80), ("zero", lambda b: 0x00), ("ff", lambda b: 0xFF))
TOL = 0.1
TINY = 1e-9


class _Timeout(BaseException):
    pass


def _alarm(signum, frame):
    if os.environ.get("C18_DEBUG"):
        import traceback

        print("C18 alarm after", time.process_time() - _GUARD_T0[0], "cpu s", flush=True)
        traceback.print_stack(frame, limit=14)
    raise _Timeout()


_GUARD_T0 = [0.0]


class guarded:
    """Per-decode CPU-time guard (ITIMER_VIRTUAL: user CPU seconds of this process, so a busy
    machine cannot fake a hang) — a decode that keeps computing becomes an observable outcome."""

    def __init__(self, limit=None):
        self.limit = limit or DECODE_TIMEOUT

    def __enter__(self):
        self.old = signal.signal(signal.SIGVTALRM, _alarm)
        _GUARD_T0[0] = time.process_time()
        signal.setitimer(signal.ITIMER_VIRTUAL, self.limit)

    def __exit__(self, *a):
        signal.setitimer(signal.ITIMER_VIRTUAL, 0)
        signal.signal(signal.SIGVTALRM, self.old)
        return False


def _rss():
    return resource.getrusage(resource.RUSAGE_SELF).ru_maxrss


# ---------------------------------------------------------------------------------
# canonical value of a scene (what "equal in every property and parameter" compares)
# ---------------------------------------------------------------------------------

_ADDR = re.compile(r"0x[0-9a-fA-F]+")


def canon(v, depth=0):
    import numpy
    from scenic.core.vectors import Orientation, Vector

    if v is None or isinstance(v, (bool, str, bytes)):
        return v
    if isinstance(v, (int, numpy.integer)):
        return ("i", int(v))
    if isinstance(v, (float, numpy.floating)):
        return ("f", repr(float(v)))
    if isinstance(v, Vector):
        return ("Vector",) + tuple(repr(float(c)) for c in v.coordinates)
    if isinstance(v, Orientation):
        return ("Orientation",) + tuple(repr(float(c)) for c in v.q)
    if isinstance(v, (tuple, list)):
        return (type(v).__name__,) + tuple(canon(x, depth + 1) for x in v)
    if isinstance(v, dict):
        return ("dict",) + tuple(sorted(((canon(k, depth + 1), canon(x, depth + 1)) for k, x in v.items()), key=repr))
    if isinstance(v, (set, frozenset)):
        return (type(v).__name__,) + tuple(sorted((canon(x, depth + 1) for x in v), key=repr))
    if isinstance(v, numpy.ndarray):
        return ("ndarray",) + tuple(canon(x, depth + 1) for x in v.tolist())
    import weakref

    if isinstance(v, weakref.ReferenceType):
        return "weakref"
    from scenic.core.dynamics.behaviors import Behavior
    from scenic.core.object_types import Constructible, Mutator
    from scenic.core.shapes import Shape

    if isinstance(v, Shape):
        return (type(v).__name__, canon(getattr(v, "dimensions", None), depth + 1), canon(getattr(v, "scale", None), depth + 1))
    if isinstance(v, Mutator):
        return (type(v).__name__, canon(getattr(v, "stddevs", None), depth + 1))
    if isinstance(v, Behavior):
        return (type(v).__name__, canon(v._args, depth + 1), canon(v._kwargs, depth + 1))
    if isinstance(v, Constructible):
        if depth > 3:
            return (type(v).__name__, "...")
        return (type(v).__name__,) + object_snapshot(v, depth + 1)
    if isinstance(v, type):
        return ("type", v.__name__)
    return (type(v).__name__, _ADDR.sub("0x", repr(v)))


def object_snapshot(obj, depth=0):
    return tuple((p, canon(getattr(obj, p), depth)) for p in sorted(obj.properties))


def scene_snapshot(scene):
    objs = tuple((type(o).__name__,) + object_snapshot(o) for o in scene.objects)
    params = tuple(sorted(((k, canon(v)) for k, v in scene.params.items()), key=lambda kv: kv[0]))
    ego = scene.objects.index(scene.egoObject) if scene.egoObject in scene.objects else None
    return {"objects": objs, "params": params, "ego": ego}


def globals_snapshot(scene):
    """Sampled values of the random module-level globals visible to behaviours / monitors:
    {"module:name": canonical value}.  Only names that are still bound to a distribution in the
    compilation's namespace (evaluating a `require` rebinds the names it uses to plain values)."""
    from scenic.core.distributions import Distribution

    out = {}
    for mod, (ns, sampled, original) in scene.behaviorNamespaces.items():
        for name, value in original.items():
            if not name.startswith("_") and isinstance(value, Distribution) and name in sampled:
                out[f"{mod}:{name}"] = canon(sampled[name])
    return out


def digest(x):
    return hashlib.sha1(repr(x).encode()).hexdigest()[:16]


def snapshot_diff(a, b):
    """Names of what differs between two snapshots (for descriptions / signatures)."""
    out = []
    if a["ego"] != b["ego"]:
        out.append("ego")
    if len(a["objects"]) != len(b["objects"]):
        out.append("object-count")
    for i, (oa, ob) in enumerate(zip(a["objects"], b["objects"])):
        if oa == ob:
            continue
        if oa[0] != ob[0]:
            out.append(f"obj{i}.class")
        da, db = dict(oa[1:]), dict(ob[1:])
        for k in sorted(set(da) | set(db)):
            if da.get(k, "<missing>") != db.get(k, "<missing>"):
                out.append(f"obj{i}.{k}")
    pa, pb = dict(a["params"]), dict(b["params"])
    for k in sorted(set(pa) | set(pb)):
        if pa.get(k, "<missing>") != pb.get(k, "<missing>"):
            out.append(f"param.{k}")
    return out


def _show(snap, names, limit=4):
    out = []
    for n in names[:limit]:
        if n.startswith("obj") and "." in n:
            i, k = n[3:].split(".", 1)
            d = dict(snap["objects"][int(i)][1:]) if int(i) < len(snap["objects"]) else {}
            out.append(f"{n}={d.get(k, '<missing>')!r}")
        elif n.startswith("param."):
            out.append(f"{n}={dict(snap['params']).get(n[6:], '<missing>')!r}")
    return ", ".join(out)


# ---------------------------------------------------------------------------------
# scene enumeration
# ---------------------------------------------------------------------------------


class ForcedExecution(explorer.Execution):
    """Answers every choice with the first (which=0) or last (which=-1) alternative of
    positive weight — an RNG path chosen by the harness, not explored."""

    def __init__(self, which):
        super().__init__()
        self.which = which

    def choose(self, n, weights=None, tag=None):
        alts = [i for i in range(n) if weights is None or weights[i] != 0]
        c = alts[0] if self.which == 0 else alts[-1]
        self.points.append(explorer._Point(n, c, tag, None))
        return c


def compile_scenario(text, opts=None, **over):
    import scenic

    o = dict(opts or {})
    o.update(over)
    dyn.veneer_dirt(reset=True)
    return scenic.scenarioFromString(text, mode2D=bool(o.get("mode2D")), params=o.get("params", {}))


def enumerate_scenes(scenario, mode, tier, keep=None):
    """All scenes of the scenario: list of (origin, scene).  origin = choice list / seed.
    keep(scene) -> what to retain instead of the (heavy) scene object."""
    import numpy
    from scenic.core.distributions import RejectionException

    out = []
    rejected = 0
    if mode == "seeds":
        for s in range(SEEDS[tier]):
            random.seed(s)
            numpy.random.seed(s)
            try:
                scene, _ = scenario.generate(maxIterations=200, verbosity=0)
            except RejectionException:
                rejected += 1
                continue
            out.append((("seed", s), keep(scene) if keep else scene))
        return out, rejected

    def once():
        try:
            scene, _ = scenario.generate(maxIterations=1, verbosity=0)
        except RejectionException:
            return None
        return scene

    clock = seams.ScriptedClock(chooser=lambda i: 1.0)
    t0 = time.time()
    with seams.rng_seam(mode="lattice" if mode == "lattice" else "exact", lattice_n=LATTICE_N), seams.clock_seam(clock):
        for ex, scene, stats in explorer.explore(once, max_executions=MAX_SCENES):
            if scene is None:
                rejected += 1
            else:
                out.append((("path", tuple(ex.choices)), keep(scene) if keep else scene))
            if time.time() - t0 > ENUM_BUDGET:
                raise HarnessError(f"scene enumeration exceeds {ENUM_BUDGET}s: the program does not belong in this family")
        if stats.capped:
            raise HarnessError(f"scene enumeration capped at {MAX_SCENES}")
    return out, rejected


def regenerate(scenario, origin):
    """The scene at `origin` again (for replay files)."""
    import numpy

    if origin[0] == "seed":
        random.seed(origin[1])
        numpy.random.seed(origin[1])
        scene, _ = scenario.generate(maxIterations=200, verbosity=0)
        return scene
    raise HarnessError("regenerate: path origins are re-found by enumeration")


# ---------------------------------------------------------------------------------
# decoding with observation of every outcome
# ---------------------------------------------------------------------------------


def decode(scenario, data, limit=FAST_TIMEOUT, confirmed=None, kind=None):
    """('scene', scene) | ('refused', msg) | ('escape', exc type, msg) | ('hang',) | ('memory', kB)

    A decode exceeding FAST_TIMEOUT is re-run with DECODE_TIMEOUT before it is called a hang;
    once a hang in field `kind` has been confirmed that way for this program (`confirmed` set),
    later time-outs in the same kind of field are not re-confirmed."""
    out = _decode(scenario, data, limit)
    if out[0] == "hang" and limit < DECODE_TIMEOUT and not (confirmed is not None and kind in confirmed):
        out = _decode(scenario, data, DECODE_TIMEOUT)  # confirm with the full budget
        if out[0] == "hang" and confirmed is not None:
            confirmed.add(kind)
    return out


def _decode(scenario, data, limit):
    from scenic.core.serialization import SerializationError

    before = _rss()
    try:
        with guarded(limit):
            scene = scenario.sceneFromBytes(data)
    except SerializationError as e:
        return ("refused", str(e))
    except _Timeout:
        return ("hang",)
    except MemoryError as e:
        return ("memory", -1)
    except Exception as e:  # noqa: BLE001 - every other exception type is the observation
        return ("escape", type(e).__name__, str(e)[:160])
    grown = _rss() - before
    if grown > RSS_GROWTH_LIMIT_KB:
        return ("memory", grown)
    return ("scene", scene)


def new_stats():
    return {
        "scenes": 0, "rejected": 0, "encodings": 0, "encodings_enumerated": 0, "duplicate_encodings": 0, "hang_skipped": 0, "bytes": 0, "max_len": 0,
        "roundtrips": 0, "roundtrips_recompiled": 0,
        "truncations": 0, "trunc_refused": 0, "trunc_accepted": 0, "trunc_escape": 0,
        "corruptions": 0, "corr_refused": 0, "corr_scene": 0, "corr_escape": 0, "corr_noop": 0, "corr_scene_changed": 0,
        "header_corruptions": 0,
        "foreign": 0, "foreign_refused": 0, "foreign_same_hash": 0, "option_variants": 0, "option_refused": 0,
        "cpu_s": 0.0, "cpu_other_compilations_s": 0.0,
        "set_order_compilations": 0, "set_order_choice_points": 0, "set_order_capped_programs": 0, "cross_decodes": 0, "cross_comparisons": 0,
        "globals_compared": 0, "requirement_rechecks": 0, "decoded_simulations": 0, "cross_replays": 0, "fresh_process_decodes": 0, "fresh_process_programs": 0,
        "int_classes": {}, "int_values": [], "fields": {}, "unparsed_layouts": 0, "decode_rng_draws": 0,
        "value_codec": 0,
    }


def merge_stats(tot, s):
    for k, v in s.items():
        if isinstance(v, dict):
            d = tot.setdefault(k, {})
            for kk, vv in v.items():
                d[kk] = d.get(kk, 0) + vv
        elif isinstance(v, list):
            cur = tot.setdefault(k, [])
            for x in v:
                if x not in cur:
                    cur.append(x)
        elif k in ("max_len", "chain_max_generation"):
            tot[k] = max(tot.get(k, 0), v)
        else:
            tot[k] = tot.get(k, 0) + v


def _case(kind, prog, **kw):
    idx, name, feat, text, mode, opts = prog
    c = {"kind": kind, "name": name, "feature": feat, "text": text, "mode": mode, "opts": opts}
    c.update(kw)
    return c


def _origin_json(origin):
    return [origin[0], list(origin[1]) if isinstance(origin[1], tuple) else origin[1]]


def encode_scene(scenario, scene, opts=None):
    """(snapshot, bytes or exception, extra) of a scene.  extra: the sampled behaviour-visible
    globals and, for programs with opts["sim"], the view of a simulation of the scene in the
    deterministic simulator and its simulationToBytes encoding."""
    snap = scene_snapshot(scene)
    extra = {"globals": globals_snapshot(scene), "view": None, "simdata": None}
    try:
        data = scenario.sceneToBytes(scene)
    except Exception as e:  # noqa: BLE001 - observed by check_encoding
        return snap, e, extra
    steps = (opts or {}).get("sim")
    if steps:
        out = simulate_scene(scene, steps)
        if out[0] == "sim":
            extra["view"] = sim_view(out[1], out[2], full=True)
            try:
                extra["simdata"] = scenario.simulationToBytes(out[1])
            except Exception as e:  # noqa: BLE001
                extra["simdata"] = e
        else:
            extra["view"] = ("no-simulation",) + tuple(str(x)[:120] for x in out)
    return snap, data, extra


def simulate_scene(scene, steps):
    """Simulate in the deterministic simulator; any random draw takes the first alternative."""
    with seams.rng_seam(mode="lattice", lattice_n=LATTICE_N), explorer.running(ForcedExecution(0)):
        return run_sim(C18Simulator(), scene, steps)


def check_encoding(prog, scenA, scenB, origin, encoded, st, viol, do_faults=True, only=None, pstate=None):
    """Round trip + fault enumeration of one scene.  `only` restricts to one fault (replay).

    pstate (per program): encodings already fault-enumerated (decoding is a function of the
    bytes, so identical bytes are enumerated once) and confirmed hangs per (offset, edit)."""
    idx, name, feat, text, mode, opts = prog
    from scenic.core.serialization import SerializationError

    if pstate is None:
        pstate = {"seen": set(), "hangs": {}}

    snap0, data = encoded[0], encoded[1]
    if isinstance(data, Exception):
        kind = "encode-refused" if isinstance(data, SerializationError) else f"encode-error:{type(data).__name__}"
        viol.append((f"{kind}:{feat}", f"sceneToBytes raised {data!r} for a scene of built-in distributions\n{text}", _case("roundtrip", prog, origin=_origin_json(origin))))
        return None
    st["encodings"] += 1
    st["bytes"] += len(data)
    st["max_len"] = max(st["max_len"], len(data))
    fields, prims = codec.layout(scenA, data)
    if any(f.kind == "unparsed" for f in fields):
        st["unparsed_layouts"] += 1
    for f in fields:
        st["fields"][f.kind] = st["fields"].get(f.kind, 0) + 1
    for owner, ty, v in prims:
        if ty is int and isinstance(v, int):
            c = codec.int_class(v)
            st["int_classes"][c] = st["int_classes"].get(c, 0) + 1
            if v in codec.INT_BOUNDARY_VALUES and v not in st["int_values"]:
                st["int_values"].append(v)
    base = {"origin": _origin_json(origin), "hex": data.hex()}

    if only is None or only == "roundtrip":
        # (1) round trip, original and recompiled scenario
        for which, scen in (("", scenA), ("-recompiled", scenB)):
            rstate = random.getstate()
            out = decode(scen, data)
            if random.getstate() != rstate:
                st["decode_rng_draws"] += 1
            if out[0] != "scene":
                viol.append((f"roundtrip-error{which}:{out[1] if len(out) > 1 and out[0] == 'escape' else out[0]}:{feat}",
                             f"decoding the unmodified encoding {data.hex()} failed: {out}\n{text}", _case("roundtrip", prog, which=which, **base)))
                continue
            st["roundtrips" + ("_recompiled" if which else "")] += 1
            snap1 = scene_snapshot(out[1])
            if snap1 != snap0:
                names = snapshot_diff(snap0, snap1)
                viol.append((f"roundtrip-mismatch{which}:{feat}",
                             f"decoded scene differs from the original in {names[:8]}: original {_show(snap0, names)}; decoded {_show(snap1, names)}\n"
                             f"bytes={data.hex()} origin={origin}\n{text}", _case("roundtrip", prog, which=which, **base)))
                continue
            try:
                again = scen.sceneToBytes(out[1])
            except Exception as e:  # noqa: BLE001
                again = repr(e)
            if again != data:
                viol.append((f"reencode-mismatch{which}:{feat}", f"sceneToBytes(sceneFromBytes(d)) != d: {data.hex()} -> {again.hex() if isinstance(again, bytes) else again}\n{text}",
                             _case("roundtrip", prog, which=which, **base)))
    if not do_faults:
        return data
    if data in pstate["seen"]:
        st["duplicate_encodings"] += 1
        return data
    pstate["seen"].add(data)
    st["encodings_enumerated"] += 1

    # (2) every proper prefix
    if only is None or only == "truncation":
        for k in range(len(data)):
            out = decode(scenA, data[:k])
            st["truncations"] += 1
            kind = codec.field_at(fields, k)
            if out[0] == "refused":
                st["trunc_refused"] += 1
            elif out[0] == "scene":
                st["trunc_accepted"] += 1
                snap1 = scene_snapshot(out[1])
                names = snapshot_diff(snap0, snap1)
                viol.append((f"truncated-accepted:{kind}",
                             f"the {k}-byte prefix of the {len(data)}-byte encoding {data.hex()} (cut inside {kind}) decodes to a scene instead of raising SerializationError; "
                             f"differs from the original in {names[:6]}: original {_show(snap0, names)}; decoded {_show(snap1, names)}\n{text}",
                             _case("truncation", prog, cut=k, **base)))
            else:
                st["trunc_escape"] += 1
                viol.append((f"truncation-{_outcome_sig(out)}:{kind}",
                             f"the {k}-byte prefix of {data.hex()} (cut inside {kind}): {out}\n{text}", _case("truncation", prog, cut=k, **base)))

    # (3) every single-byte edit
    if only is None or only == "corruption":
        for off in range(len(data)):
            kind = codec.field_at(fields, off)
            for ename, edit in EDITS:
                nb = edit(data[off])
                if nb == data[off]:
                    st["corr_noop"] += 1
                    continue
                bad = data[:off] + bytes([nb]) + data[off + 1 :]
                if pstate["hangs"].get((off, ename), 0) >= HANG_REPEATS and only is None:
                    st["hang_skipped"] += 1
                    continue
                out = decode(scenA, bad, confirmed=pstate.setdefault("confirmed", set()), kind=kind)
                if out[0] == "hang":
                    pstate["hangs"][(off, ename)] = pstate["hangs"].get((off, ename), 0) + 1
                st["corruptions"] += 1
                if off < codec.HEADER_LEN:
                    st["header_corruptions"] += 1
                if out[0] == "refused":
                    st["corr_refused"] += 1
                elif out[0] == "scene":
                    st["corr_scene"] += 1
                    if off < codec.HEADER_LEN:
                        viol.append((f"header-corruption-accepted:{kind}", f"byte {off} ({kind}) of {data.hex()} changed to {nb:#04x} and the scene was still accepted\n{text}",
                                     _case("corruption", prog, off=off, edit=ename, **base)))
                    elif scene_snapshot(out[1]) != snap0:
                        st["corr_scene_changed"] += 1
                else:
                    st["corr_escape"] += 1
                    viol.append((f"corruption-{_outcome_sig(out)}:{kind}",
                                 f"byte {off} ({kind}) of {data.hex()} changed {data[off]:#04x} -> {nb:#04x}: sceneFromBytes raised {out[1:] if out[0] == 'escape' else out} "
                                 f"instead of SerializationError / returning a scene\ncorrupted bytes={bad.hex()}\n{text}",
                                 _case("corruption", prog, off=off, edit=ename, **base)))
    return data


def _outcome_sig(out):
    if out[0] == "escape":
        return f"escape:{out[1]}"
    return out[0]


# ---------------------------------------------------------------------------------
# static programs: worker
# ---------------------------------------------------------------------------------


def check_static(item):
    prog, tier, do_faults = item
    idx, name, feat, text, mode, opts = prog
    st = new_stats()
    viol = []
    res = {"idx": idx, "name": name, "stats": st, "violations": viol, "sample": None, "hash": None, "wall": 0.0}
    t0 = time.time()
    c0 = time.process_time()
    try:
        scenA = compile_first(text, opts)
        # the recompilation(s): one per iteration order of the identity-hashed sets used while the
        # scenario is constructed (a single one when there is no such set); the first serves as
        # "the recompiled scenario" of check_encoding
        orders = set_order_compilations(prog, tier, st)
        scenB = orders[0][1]
    except HarnessError:
        raise
    except Exception as e:  # noqa: BLE001
        raise HarnessError(f"C18 program {name} does not compile: {e!r}\n{text}")
    res["hash"] = (scenA.astHash.hex(), scenA.compileOptions.hash.hex())
    try:
        scenes, rejected = enumerate_scenes(scenA, mode, tier, keep=lambda sc: encode_scene(scenA, sc, opts))
    except OutOfFragment as e:
        raise HarnessError(f"C18 program {name} leaves the RNG fragment ({e}); declare it 'seeds'\n{text}")
    st["scenes"] = len(scenes)
    st["rejected"] = rejected
    pstate = {"seen": set(), "hangs": {}}
    encs, seen = [], set()
    for origin, encoded in scenes:
        # (the cross-compilation programs add nothing to the byte-level fault enumeration: quick skips it for them)
        data = check_encoding(prog, scenA, scenB, origin, encoded, st, viol, do_faults=do_faults and not (tier == "quick" and name.startswith("x_")), pstate=pstate)
        if res["sample"] is None and data is not None:
            res["sample"] = data.hex()
        # distinct (bytes, original) pairs for the other compilations
        if data is not None:
            key = (data, digest((encoded[0], sorted(encoded[2]["globals"].items()), encoded[2]["view"])))
            if key not in seen:
                seen.add(key)
                encs.append((origin, encoded[0], data, encoded[2]))
    # (1b) every other compilation of the same program + options decodes to the same scene
    c1 = time.process_time()
    check_compilations(prog, scenA, orders, tier, encs, st, viol)
    cross_cpu = time.process_time() - c1
    res["encs"] = [
        {"origin": _origin_json(o), "hex": d.hex(), "digest": digest(sn), "globals": {k: repr(v) for k, v in ex["globals"].items()},
         "view": digest(ex["view"]) if ex["view"] is not None else None, "simhex": ex["simdata"].hex() if isinstance(ex["simdata"], bytes) else None}
        for o, sn, d, ex in encs
    ]
    # (2b) the same text compiled with other options / one more statement must refuse
    if res["sample"] is not None and not name.startswith("x_"):
        check_option_variants(prog, scenA, bytes.fromhex(res["sample"]), st, viol)
    res["wall"] = time.time() - t0
    st["cpu_s"] = time.process_time() - c0
    st["cpu_other_compilations_s"] = st["cpu_s"] if name.startswith("x_") else cross_cpu
    return res


def option_variants(text, opts):
    """(label, text, opts) of compilations that are NOT the same scenario."""
    out = []
    flipped = dict(opts)
    flipped["mode2D"] = not opts.get("mode2D")
    if not (flipped["mode2D"] and opts.get("no2D")):
        out.append(("mode2D", text, flipped))
    p1 = dict(opts)
    p1["params"] = dict(opts.get("params", {}), c18opt=1)
    out.append(("param-added", text, p1))
    out.append(("statement-added", text + "param zz_c18 = 1\n", dict(opts)))
    return out


def check_option_variants(prog, scenA, data, st, viol):
    idx, name, feat, text, mode, opts = prog
    # two overrides of the same parameter with different values
    variants = option_variants(text, opts)
    p1 = dict(opts, params=dict(opts.get("params", {}), c18opt=1))
    p2 = dict(opts, params=dict(opts.get("params", {}), c18opt=2))
    for label, vtext, vopts in variants:
        try:
            other = compile_scenario(vtext, vopts)
        except Exception:  # noqa: BLE001 - e.g. a 3D-only program in 2D mode
            continue
        _expect_refusal(prog, other, data, f"options:{label}", st, viol, "option_variants", "option_refused", dict(variant=label))
        scenes, _ = enumerate_scenes_first(other, mode)
        if scenes is not None:
            try:
                odata = other.sceneToBytes(scenes)
            except Exception:  # noqa: BLE001
                continue
            _expect_refusal(prog, scenA, odata, f"options:{label}-reverse", st, viol, "option_variants", "option_refused", dict(variant=label, reverse=True))
    try:
        s1, s2 = compile_scenario(text, p1), compile_scenario(text, p2)
    except Exception:  # noqa: BLE001
        return
    sc, _ = enumerate_scenes_first(s1, mode)
    if sc is not None:
        d1 = s1.sceneToBytes(sc)
        _expect_refusal(prog, s2, d1, "options:param-value", st, viol, "option_variants", "option_refused", dict(variant="param-value"))
        # the same parameter overridden with the int 1 and with the string "1"
        try:
            s3 = compile_scenario(text, dict(opts, params=dict(opts.get("params", {}), c18opt="1")))
        except Exception:  # noqa: BLE001
            return
        _expect_refusal(prog, s3, d1, "options:param-int-vs-str", st, viol, "option_variants", "option_refused", dict(variant="param-int-vs-str"))


def enumerate_scenes_first(scenario, mode):
    """One scene (the all-first-alternatives RNG path, or seed 0)."""
    import numpy
    from scenic.core.distributions import RejectionException

    if mode == "seeds":
        random.seed(0)
        numpy.random.seed(0)
        try:
            return scenario.generate(maxIterations=200, verbosity=0)[0], 0
        except RejectionException:
            return None, 0
    with seams.rng_seam(mode="lattice", lattice_n=LATTICE_N):
        for which in (0, -1):
            with explorer.running(ForcedExecution(which)):
                try:
                    return scenario.generate(maxIterations=1, verbosity=0)[0], 0
                except RejectionException:
                    continue
    return None, 0


def _expect_refusal(prog, scenario, data, what, st, viol, kcount, kref, extra):
    out = decode(scenario, data)
    st[kcount] += 1
    if out[0] == "refused":
        st[kref] += 1
        return
    idx, name, feat, text, mode, opts = prog
    got = "a scene was returned" if out[0] == "scene" else f"{out}"
    viol.append((f"refusal-missed:{what}" if out[0] == "scene" else f"refusal-{_outcome_sig(out)}:{what}",
                 f"bytes {data.hex()} of a different compilation ({what}) must raise SerializationError; {got}\n{text}",
                 _case("variant", prog, hex=data.hex(), **extra)))


# ---------------------------------------------------------------------------------
# decoding by OTHER compilations of the same program + options
# ---------------------------------------------------------------------------------

SET_ORDER_MODULES = ("scenic.core.requirements", "scenic.core.dynamics.scenarios", "scenic.core.scenarios")


def compile_under_set_order(text, opts, chooser):
    """Compile with every `set` of the scenario-construction modules replaced by a set whose
    iteration order is the permutation chooser picks (identity-hashed elements: any order is a
    possible memory layout).  The seam must really be installed."""
    import importlib
    import itertools

    cache = {}

    def perm_source(n, items):
        if n not in cache:
            cache[n] = list(itertools.permutations(range(n))) if n <= 6 else None
        if cache[n] is None:  # too many orders to enumerate: identity and reversal
            return (tuple(range(n)), tuple(reversed(range(n))))[chooser(2)]
        return cache[n][chooser(len(cache[n]))]

    with seams.set_order_seam(perm_source):
        for m in SET_ORDER_MODULES:
            if importlib.import_module(m).__dict__.get("set") is not seams.ScriptedSet:
                raise HarnessError(f"set-order seam not installed in {m}")
        return compile_scenario(text, opts)


def compile_first(text, opts):
    """The encoding compilation: like compile_scenario, but any identity-hashed set used while the
    scenario is built iterates in insertion order, so that it does not depend on memory addresses
    (real address-ordered sets are what the fresh-process compilations exercise)."""
    return compile_under_set_order(text, opts, lambda n: 0)


def set_order_compilations(prog, tier, st):
    """One compilation per iteration order of the injected sets (complete tree up to the cap)."""
    idx, name, feat, text, mode, opts = prog
    out = []
    holder = {}

    def once():
        holder["sc"] = compile_under_set_order(text, opts, lambda n: explorer.choose(n, tag="setorder"))
        return None

    for ex, _, stats in explorer.explore(once, max_executions=SET_ORDER_CAP[tier]):
        out.append((f"set-order{list(ex.choices)}", holder["sc"], {"set_order": list(ex.choices)}))
        st["set_order_compilations"] += 1
        st["set_order_choice_points"] += len(ex.points)
    if stats.capped:
        st["set_order_capped_programs"] += 1
    return out


def compare_decoded(prog, label, info, scen, data, snap0, extra, dec, st, viol, base, same=False):
    """Decoded scene `dec` (by compilation `label`) against the original: properties and params,
    behaviour-visible globals, requirement re-check, simulation of the decoded scene, replay of the
    recorded simulation on this compilation.  Returns the number of comparisons made."""
    idx, name, feat, text, mode, opts = prog
    tag = "" if same else "-other-compilation"
    case = lambda **kw: _case("other-compilation", prog, label=label, **info, **base, **kw)  # noqa: E731
    snap1 = scene_snapshot(dec)
    if snap1 != snap0:
        names = snapshot_diff(snap0, snap1)
        viol.append((f"roundtrip-mismatch{'' if same else '-recompiled'}:{feat}", f"decoded by {label}: scene differs from the original in {names[:8]}: original {_show(snap0, names)}; decoded {_show(snap1, names)}\n"
                     f"bytes={data.hex()}\n{text}", case(what="snapshot")))
        return 1
    n = 1
    g0, g1 = extra["globals"], globals_snapshot(dec)
    common = sorted(set(g0) & set(g1))
    st["globals_compared"] += len(common)
    bad = [k for k in common if g0[k] != g1[k]]
    if bad:
        perm = sorted(repr(g0[k]) for k in bad) == sorted(repr(g1[k]) for k in bad)
        viol.append((f"roundtrip-mismatch{tag}:behavior-globals-{'permuted' if perm else 'changed'}",
                     f"decoded by {label} without any error, but the module-level random globals seen by behaviours / monitors differ: "
                     f"original {{{', '.join(f'{k}={g0[k]!r}' for k in bad)}}}; decoded {{{', '.join(f'{k}={g1[k]!r}' for k in bad)}}}\nbytes={data.hex()}\n{text}", case(what="globals")))
        return n
    if opts.get("recheck"):
        n += 1
        st["requirement_rechecks"] += 1
        try:
            rej = scen.checker.checkRequirements(dec.sample)
        except Exception as e:  # noqa: BLE001
            rej = f"{type(e).__name__}: {e}"
        if rej is not None:
            viol.append((f"decoded-scene-violates-requirements{tag}:{feat}", f"decoded by {label}: the decoded sample violates the program's requirements ({rej}); the encoded scene satisfied them\n"
                         f"bytes={data.hex()}\n{text}", case(what="recheck")))
            return n
    if extra.get("view") is not None and opts.get("sim"):
        n += 1
        st["decoded_simulations"] += 1
        out = simulate_scene(dec, opts["sim"])
        view1 = sim_view(out[1], out[2], full=True) if out[0] == "sim" else ("no-simulation",) + tuple(str(x)[:120] for x in out)
        if view1 != extra["view"]:
            d = view_diff(extra["view"], view1) if isinstance(view1, dict) and isinstance(extra["view"], dict) else ["outcome"]
            show = lambda v: [v[k] for k in d if k in ("actions", "applied", "events")][:2] if isinstance(v, dict) else v  # noqa: E731
            viol.append((f"simulation-mismatch{tag}:{feat}", f"decoded by {label}: simulating the decoded scene differs from simulating the original in {d}: original {show(extra['view'])!r:.400} decoded {show(view1)!r:.400}\n"
                         f"bytes={data.hex()}\n{text}", case(what="simulation")))
            return n
        simdata = extra.get("simdata")
        if isinstance(simdata, bytes):
            n += 1
            st["cross_replays"] += 1
            out, _ = _from_bytes(scen, simdata, C18Simulator(), opts["sim"], 0, {})
            view2 = sim_view(out[1], out[2], full=True) if out[0] == "sim" else ("no-simulation",) + tuple(str(x)[:120] for x in out)
            if view2 != extra["view"]:
                d = view_diff(extra["view"], view2) if isinstance(view2, dict) else ["outcome"]
                viol.append((f"replay-mismatch{tag}:{feat}", f"simulationFromBytes on {label}: the replay differs from the recorded simulation in {d}: recorded {show(extra['view'])!r:.400} replayed {show(view2)!r:.400}\n"
                             f"simulation bytes={simdata.hex()}\n{text}", case(what="replay")))
    return n


def check_compilations(prog, scenA, orders, tier, encs, st, viol, only=None):
    """Every distinct encoding decoded by: the encoding scenario, and one recompilation per iteration
    order of the identity-hashed sets used while constructing the scenario (`orders`, from
    set_order_compilations).  For programs without simulation / re-check options the first
    recompilation was already compared by check_encoding."""
    idx, name, feat, text, mode, opts = prog
    full = name.startswith("x_") or opts.get("sim") or opts.get("recheck")
    comps = [("the encoding scenario", scenA, {"comp": "same"})] if full else []
    comps += [(f"a recompilation ({lab})", sc, dict(info, comp="set-order")) for lab, sc, info in (orders if full else orders[1:])]
    for label, scen, info in comps:
        if only is not None and (only.get("comp") != info["comp"] or only.get("set_order") != info.get("set_order")):
            continue
        for origin, snap0, data, extra in encs:
            base = {"origin": _origin_json(origin), "hex": data.hex()}
            out = decode(scen, data)
            st["cross_decodes"] += 1
            if out[0] != "scene":
                viol.append((f"roundtrip-error{'' if info['comp'] == 'same' else '-other-compilation'}:{_outcome_sig(out) if out[0] == 'escape' else out[0]}:{feat}",
                             f"decoding the unmodified encoding {data.hex()} by {label} failed: {out}\n{text}", _case("other-compilation", prog, label=label, what="decode", **info, **base)))
                continue
            st["cross_comparisons"] += compare_decoded(prog, label, info, scen, data, snap0, extra, out[1], st, viol, base, same=info["comp"] == "same")


# ---------------------------------------------------------------------------------
# decoding by a compilation in a FRESH PROCESS (another PYTHONHASHSEED, other addresses)
# ---------------------------------------------------------------------------------

CHILD_MARK = "C18CHILD:"


def _view_of(out):
    return digest(sim_view(out[1], out[2], full=True)) if out[0] == "sim" else "no-simulation:" + ":".join(str(x)[:80] for x in out)


def child_main():
    """Runs in the fresh process: compile each program, decode each encoding, report digests."""
    req = json.load(sys.stdin)
    res = []
    for p in req["programs"]:
        opts = p["opts"]
        try:
            scen = compile_scenario(p["text"], opts)
        except Exception as e:  # noqa: BLE001
            res.append({"name": p["name"], "error": repr(e)[:300]})
            continue
        rows = []
        for enc in p["encs"]:
            o = decode(scen, bytes.fromhex(enc["hex"]))
            row = {"status": o[0] if o[0] != "escape" else f"escape:{o[1]}"}
            if o[0] == "scene":
                dec = o[1]
                snap = scene_snapshot(dec)
                row["digest"] = digest(snap)
                row["globals"] = {k: repr(v) for k, v in globals_snapshot(dec).items()}
                row["brief"] = repr(snap["params"])[:300]
                if opts.get("recheck"):
                    try:
                        rej = scen.checker.checkRequirements(dec.sample)
                    except Exception as e:  # noqa: BLE001
                        rej = f"{type(e).__name__}: {e}"
                    row["recheck"] = None if rej is None else str(rej)[:200]
                if opts.get("sim") and enc.get("view"):
                    out = simulate_scene(dec, opts["sim"])
                    row["view"] = _view_of(out)
                    row["applied"] = repr(sim_view(out[1], out[2])["applied"])[:300] if out[0] == "sim" else None
                    if enc.get("simhex"):
                        out, _ = _from_bytes(scen, bytes.fromhex(enc["simhex"]), C18Simulator(), opts["sim"], 0, {})
                        row["replay_view"] = _view_of(out)
            else:
                row["detail"] = str(o)[:200]
            rows.append(row)
        res.append({"name": p["name"], "hash": [scen.astHash.hex(), scen.compileOptions.hash.hex()], "rows": rows})
    sys.stdout.write("\n" + CHILD_MARK + json.dumps(res) + "\n")
    sys.stdout.flush()


def fresh_process(item):
    """Decode the encodings of some programs in a fresh interpreter with PYTHONHASHSEED=hashseed."""
    hashseed, programs = item
    st = new_stats()
    viol = []
    env = dict(os.environ, PYTHONHASHSEED=str(hashseed))
    ru0 = resource.getrusage(resource.RUSAGE_CHILDREN)
    payload = json.dumps({"programs": [{k: p[k] for k in ("name", "feature", "text", "mode", "opts", "encs")} for p in programs]})
    r = subprocess.run([sys.executable, "-m", "checks.c18", "child"], input=payload, capture_output=True, text=True, env=env,
                       cwd=os.path.dirname(os.path.dirname(os.path.abspath(__file__))), timeout=3000)
    ru1 = resource.getrusage(resource.RUSAGE_CHILDREN)
    st["cpu_s"] = st["cpu_other_compilations_s"] = (ru1.ru_utime + ru1.ru_stime) - (ru0.ru_utime + ru0.ru_stime)
    lines = [l for l in r.stdout.splitlines() if l.startswith(CHILD_MARK)]
    if r.returncode != 0 or not lines:
        raise HarnessError(f"fresh-process decoder failed (rc={r.returncode}): {r.stderr[-1500:]}")
    results = {x["name"]: x for x in json.loads(lines[-1][len(CHILD_MARK):])}
    for p in programs:
        res = results.get(p["name"])
        prog = (0, p["name"], p["feature"], p["text"], p["mode"], p["opts"])
        if res is None or "error" in res:
            viol.append((f"compile-error-other-compilation:{p['feature']}", f"the program did not compile in a fresh process (PYTHONHASHSEED={hashseed}): {res}\n{p['text']}",
                         _case("fresh-process", prog, hashseed=hashseed, enc=p["encs"][0] if p["encs"] else None)))
            continue
        st["fresh_process_programs"] += 1
        label = f"a compilation in a fresh process (PYTHONHASHSEED={hashseed})"
        for enc, row in zip(p["encs"], res["rows"]):
            st["fresh_process_decodes"] += 1
            case = lambda what: _case("fresh-process", prog, hashseed=hashseed, enc=enc, what=what)  # noqa: E731
            feat, text = p["feature"], p["text"]
            if row["status"] != "scene":
                viol.append((f"roundtrip-error-other-compilation:{row['status']}:{feat}", f"decoding the unmodified encoding {enc['hex']} by {label} failed: {row.get('detail')}\n{text}", case("decode")))
                continue
            if row["digest"] != enc["digest"]:
                viol.append((f"roundtrip-mismatch-recompiled:{feat}", f"decoded by {label}: object properties / params differ from the original (decoded params {row['brief']})\nbytes={enc['hex']}\n{text}", case("snapshot")))
                continue
            g0, g1 = enc["globals"], row["globals"]
            bad = [k for k in sorted(set(g0) & set(g1)) if g0[k] != g1[k]]
            st["globals_compared"] += len(set(g0) & set(g1))
            if bad:
                perm = sorted(g0[k] for k in bad) == sorted(g1[k] for k in bad)
                viol.append((f"roundtrip-mismatch-other-compilation:behavior-globals-{'permuted' if perm else 'changed'}",
                             f"decoded by {label} without any error, but the module-level random globals seen by behaviours / monitors differ: "
                             f"original {{{', '.join(f'{k}={g0[k]}' for k in bad)}}}; decoded {{{', '.join(f'{k}={g1[k]}' for k in bad)}}}\nbytes={enc['hex']}\n{text}", case("globals")))
                continue
            if row.get("recheck") is not None:
                viol.append((f"decoded-scene-violates-requirements-other-compilation:{feat}", f"decoded by {label}: the decoded sample violates the program's requirements ({row['recheck']})\nbytes={enc['hex']}\n{text}", case("recheck")))
                continue
            if enc.get("view") and row.get("view") != enc["view"]:
                viol.append((f"simulation-mismatch-other-compilation:{feat}", f"decoded by {label}: simulating the decoded scene differs from simulating the original (actions applied: {row.get('applied')})\nbytes={enc['hex']}\n{text}", case("simulation")))
                continue
            if enc.get("simhex") and row.get("replay_view") != enc["view"]:
                viol.append((f"replay-mismatch-other-compilation:{feat}", f"simulationFromBytes on {label}: the replay differs from the recorded simulation\nsimulation bytes={enc['simhex']}\n{text}", case("replay")))
    return {"stats": st, "violations": viol}


# ---------------------------------------------------------------------------------
# foreign bytes: every program refuses the bytes of every other program
# ---------------------------------------------------------------------------------


def check_foreign(item):
    prog, foreign = item
    idx, name, feat, text, mode, opts = prog
    st = new_stats()
    viol = []
    scen = compile_scenario(text, opts)
    mine = (scen.astHash.hex(), scen.compileOptions.hash.hex())
    for fname, fhash, fhex in foreign:
        if fname == name:
            continue
        if tuple(fhash) == mine:
            st["foreign_same_hash"] += 1  # identical AST and options: the same scenario as far as the format is concerned
            continue
        out = decode(scen, bytes.fromhex(fhex))
        st["foreign"] += 1
        if out[0] == "refused":
            st["foreign_refused"] += 1
        else:
            viol.append((f"refusal-missed:foreign-program" if out[0] == "scene" else f"refusal-{_outcome_sig(out)}:foreign-program",
                         f"bytes {fhex} produced by program {fname} were given to program {name}: {out[0]}\n{text}",
                         {"kind": "foreign", "name": name, "text": text, "mode": mode, "opts": opts, "feature": feat, "foreign": [fname, list(fhash), fhex]}))
    return {"stats": st, "violations": viol}


# ---------------------------------------------------------------------------------
# value codecs (int / bool / float / str / bytes / Vector / Orientation), directly
# ---------------------------------------------------------------------------------


def value_codec_cases():
    from scenic.core.vectors import Orientation, Vector

    ints = sorted(set(list(codec.INT_BOUNDARY_VALUES) + [1, 251, 254, 255, 256, -2, -255, -256, 65535, 65536, 2**39 - 1, 2**39, 2**63 - 1, 2**63, -(2**63), -(2**63) - 1, 2**200, -(2**200), 256**254 - 1]))
    cases = [("int", int, v) for v in ints]
    cases += [("bool", bool, v) for v in (False, True)]
    cases += [("float", float, v) for v in (0.0, -0.0, 1.5, -2.71828, 4.123e50, 7.89e-50, 5e-324, 1.7976931348623157e308, math.inf, -math.inf)]
    cases += [("str", str, v) for v in ("", "0", "squeamish ossifrage", "é∂", "x" * 252, "x" * 253, "y" * 300)]
    cases += [("bytes", bytes, v) for v in (b"", b"\x00", b"\xff", b"\x00123456", b"z" * 252, b"z" * 253)]
    cases += [("Vector", Vector, Vector(-7.5, 42, 0)), ("Vector", Vector, Vector(1e300, -0.0, 5e-324))]
    cases += [("Orientation", Orientation, Orientation.fromEuler(0.2 * math.pi, 0.6 * math.pi, 0)), ("Orientation", Orientation, Orientation.fromEuler(0, 0, 0))]
    return cases


def _read_value(ty, data):
    from scenic.core.serialization import SerializationError, Serializer

    try:
        with guarded():
            return ("value", Serializer(data).readValue(ty))
    except SerializationError as e:
        return ("refused", str(e))
    except _Timeout:
        return ("hang",)
    except Exception as e:  # noqa: BLE001
        return ("escape", type(e).__name__, str(e)[:120])


def check_value_codecs(_):
    """writeValue/readValue round trip, every truncation, every single-byte edit."""
    from scenic.core.serialization import Serializer

    st = new_stats()
    viol = []
    counts = {"roundtrip": 0, "trunc": 0, "trunc_refused": 0, "corr": 0, "corr_refused": 0, "corr_value": 0}
    for tname, ty, v in value_codec_cases():
        ser = Serializer()
        ser.writeValue(v, ty)
        data = ser.getBytes()
        case = {"kind": "value", "type": tname, "value": repr(v), "hex": data.hex()}
        vrepr = repr(v) if len(repr(v)) <= 48 else repr(v)[:20] + f"...({len(repr(v))} chars)"
        out = _read_value(ty, data)
        counts["roundtrip"] += 1
        if out[0] != "value" or canon(out[1]) != canon(v) or type(out[1]) is not type(v):
            viol.append((f"value-roundtrip-mismatch:{tname}", f"readValue(writeValue({v!r})) = {out}", case))
        fields = []
        try:
            codec.parse_value(data, 0, ty, tname, fields)
        except codec.Short:
            fields = []
        if ty is int:
            c = codec.int_class(v)
            st["int_classes"][c] = st["int_classes"].get(c, 0) + 1
            if len(data) != codec.int_encoded_len(v):
                viol.append((f"int-encoding-width:{c}", f"int {vrepr} is encoded in {len(data)} bytes ({data.hex()[:40]}); the format stores it in its narrowest width class "
                             f"({c}: {codec.int_encoded_len(v)} bytes; 0..252 one byte, then int16, int32, length-prefixed)", case))
        for k in range(len(data)):
            out = _read_value(ty, data[:k])
            counts["trunc"] += 1
            kind = codec.field_at(fields, k)
            if out[0] == "refused":
                counts["trunc_refused"] += 1
            elif out[0] == "value":
                viol.append((f"value-truncated-accepted:{kind}", f"{tname} {vrepr} encoded as {data.hex() if len(data) < 40 else data[:40].hex() + '...'} ({len(data)} bytes): "
                             f"the {k}-byte prefix decodes to {out[1]!r:.80} instead of raising SerializationError", dict(case, cut=k)))
            else:
                viol.append((f"value-truncation-{_outcome_sig(out)}:{kind}", f"{tname} {vrepr}: {k}-byte prefix: {out}", dict(case, cut=k)))
        if len(data) > 64:
            offsets = list(range(0, 8)) + list(range(len(data) - 4, len(data)))  # long payloads: both ends (payload bytes are homogeneous)
        else:
            offsets = range(len(data))
        for off in offsets:
            kind = codec.field_at(fields, off)
            for ename, edit in EDITS:
                nb = edit(data[off])
                if nb == data[off]:
                    continue
                out = _read_value(ty, data[:off] + bytes([nb]) + data[off + 1 :])
                counts["corr"] += 1
                if out[0] == "refused":
                    counts["corr_refused"] += 1
                elif out[0] == "value":
                    counts["corr_value"] += 1
                else:
                    viol.append((f"value-corruption-{_outcome_sig(out)}:{kind}", f"{tname} {vrepr} = {data.hex()[:80]}: byte {off} -> {nb:#04x}: {out}", dict(case, off=off, edit=ename)))
    st["value_codec"] = counts["roundtrip"] + counts["trunc"] + counts["corr"]
    return {"stats": st, "violations": viol, "counts": counts}


# ---------------------------------------------------------------------------------
# simulations: recording, replay, divergence
# ---------------------------------------------------------------------------------


class C18Simulator(dyn.ScriptedSimulator):
    def createSimulation(self, scene, **kwargs):
        return C18Simulation(scene, self, **kwargs)


class C18Simulation(dyn.ScriptedSimulation):
    """ScriptedSimulation that also notes where each run-time random value was written."""

    def __init__(self, scene, simulator, **kwargs):
        self.spans = []
        self.rt_values = 0
        super().__init__(scene, simulator, **kwargs)

    def replaySampledValue(self, dist, values):
        self.rt_replayed = getattr(self, "rt_replayed", 0) + 1
        return super().replaySampledValue(dist, values)

    def recordSampledValue(self, dist, values):
        out = self._replayOut
        a = out.stream.tell() if out else 0
        super().recordSampledValue(dist, values)
        b = out.stream.tell() if out else 0
        self.rt_values += 1
        self.spans.append((a, b, type(dist).__name__))


def _act_tag(a):
    t = getattr(a, "tag", None)
    return (type(a).__name__, canon(t))


def sim_view(sim, log, full=False):
    """Everything C18 compares between a run and its replay (full: also every probe event)."""
    r = sim.result
    traj = tuple(
        (tuple(canon(p) for p in state.positions), tuple(canon(o) for o in state.orientations)) for state in r.trajectory
    )
    objs = list(sim.objects)
    actions = tuple(
        tuple((objs.index(agent) if agent in objs else getattr(agent, "name", "?"), tuple(_act_tag(a) for a in acts)) for agent, acts in step.items())
        for step in r.actions
    )
    records = tuple(sorted((k, canon(v)) for k, v in r.records.items()))
    applied = tuple(e for e in (repr(x) for x in log) if "apply:" in e)
    view = {"trajectory": traj, "actions": actions, "records": records, "termination": (r.terminationType.name, str(r.terminationReason)),
            "time": sim.currentTime, "applied": applied, "objects": len(objs)}
    if full:
        view["events"] = tuple(repr(x) for x in dyn.normalize_log(log))
    return view


def view_diff(a, b):
    return [k for k in a if a[k] != b.get(k)]


def run_sim(simulator, scene, maxSteps, **kw):
    """('sim', simulation, log) | ('rejected',) | ('error', exc)"""
    dyn.veneer_dirt(reset=True)
    dyn.probe.STATE.reset(default=False)
    try:
        sim = simulator.simulate(scene, maxSteps=maxSteps, maxIterations=1, timestep=1, **kw)
    except Exception as e:  # noqa: BLE001 - outcome
        dyn.veneer_dirt(reset=True)
        return ("error", e)
    if sim is None:
        return ("rejected",)
    return ("sim", sim, list(dyn.probe.STATE.log))


def new_dyn_stats():
    return {"chain_roots": 0, "chain_steps": 0, "chain_states": 0, "chain_states_merged": 0, "chain_max_generation": 0, "chain_reencodes_compared": 0,
            "chain_later_generations_with_draws": 0, "chain_later_generations_nontrivial_bytes": 0, "chain_continued_runs": 0, "cpu_chains_s": 0.0,
            "cpu_s": 0.0, "recordings": 0, "recordings_fault_enumerated": 0, "rejected_runs": 0, "replays": 0, "replays_equal": 0, "replay_rng_points": 0, "rt_values": 0,
            "replay_bytes": 0, "sim_encodings": 0,
            "perturbations": 0, "diverged": 0, "not_diverged": 0, "perturb_expected_div": 0, "perturb_expected_ok": 0,
            "div_props": {}, "continue_after": 0,
            "replay_corruptions": 0, "rc_completed": 0, "rc_refused": 0, "rc_diverged": 0, "rc_rejected": 0, "rc_escape": 0, "rc_downstream": {},
            "replay_truncations": 0, "rt_completed": 0, "rt_refused": 0,
            "simbytes_truncations": 0, "simbytes_refused": 0,
            "scenes": 0, "int_classes": {}}


def _dcase(prog, **kw):
    idx, name, feat, text, mode, steps, div = prog
    c = {"kind": "dynamic", "name": name, "feature": feat, "text": text, "mode": mode, "steps": steps, "div": div}
    c.update(kw)
    return c


def replay_outcome(simulator, scene, maxSteps, replay, which, **kw):
    """Run a replay under a forced RNG path.  Returns (outcome tuple, rng points drawn)."""
    from scenic.core.serialization import SerializationError
    from scenic.core.simulators import DivergenceError

    ex = ForcedExecution(which)
    with explorer.running(ex):
        try:
            with guarded():
                out = run_sim(simulator, scene, maxSteps, replay=replay, **kw)
        except _Timeout:
            dyn.veneer_dirt(reset=True)
            return ("hang",), len(ex.points)
    if out[0] == "error":
        e = out[1]
        if isinstance(e, DivergenceError):
            return ("diverged", str(e)), len(ex.points)
        if isinstance(e, SerializationError):
            return ("refused", str(e)), len(ex.points)
        return ("escape" if _raised_while_decoding(e) else "downstream", type(e).__name__, str(e)[:160]), len(ex.points)
    return out, len(ex.points)


_DECODE_FRAMES = {"replaySampledValue", "deserializeValue", "readValue", "readSamplable", "readReplayHeader", "initializeReplay", "readInt", "readBytes", "readStr", "readFloat", "decodeFrom"}


def _raised_while_decoding(e):
    """Did the exception come out of Scenic's replay-decoding code (as opposed to the program
    failing later because a successfully decoded value was wrong)?"""
    tb = e.__traceback__
    while tb is not None:
        code = tb.tb_frame.f_code
        if code.co_name in _DECODE_FRAMES or code.co_filename.endswith("scenic/core/serialization.py"):
            return True
        tb = tb.tb_next
    return False


def check_dynamic(item):
    """item = (program, tier, only[, shard]); shard = (i, n): this worker does the i-th of n slices of
    the perturbation points of a divergence program (slice 0 also does everything else)."""
    prog, tier, only = item[:3]
    shard = item[3] if len(item) > 3 else (0, 1)
    idx, name, feat, text, mode, steps, div = prog
    st = new_dyn_stats()
    viol = []
    res = {"idx": idx, "name": name, "stats": st, "violations": viol, "wall": 0.0}
    t0 = time.time()
    c0 = time.process_time()
    try:
        scenA = compile_scenario(text)
        scenB = compile_scenario(text)
    except Exception as e:  # noqa: BLE001
        raise HarnessError(f"C18 dynamic program {name} does not compile: {e!r}\n{text}")
    scenes, _ = enumerate_scenes(scenA, mode, tier)
    st["scenes"] = len(scenes) if shard[0] == 0 else 0
    simulator = C18Simulator()
    rmode = "lattice" if mode == "lattice" else "exact"
    ordinal = 0  # recordings of this program so far (enumeration order)
    for origin, scene in scenes:
        if only is not None and _origin_json(origin) != only.get("origin"):
            continue
        # every RNG outcome of the original run
        holder = {}

        def once():
            out = run_sim(simulator, scene, steps, enableDivergenceCheck=div)
            holder["out"] = out
            return out[0]

        with seams.rng_seam(mode=rmode, lattice_n=LATTICE_N):
            for ex, kind, stats in explorer.explore(once, max_executions=MAX_SCENES):
                out = holder["out"]
                if out[0] == "rejected":
                    st["rejected_runs"] += 1
                    continue
                if out[0] == "error":
                    if isinstance(out[1], OutOfFragment):
                        raise HarnessError(f"{name}: run leaves the RNG fragment: {out[1]}")
                    viol.append((f"run-error:{type(out[1]).__name__}:{feat}", f"original simulation failed: {out[1]!r}\n{text}", _dcase(prog, origin=_origin_json(origin), path=list(ex.choices))))
                    continue
                path = list(ex.choices)
                if only is not None and path != only.get("path"):
                    continue
                sim, log = out[1], out[2]
                ordinal += 1
                if shard[0] == 0:
                    st["recordings"] += 1
                    st["rt_values"] += sim.rt_values
                check_recording(prog, scenA, scenB, simulator, origin, scene, path, sim, log, st, viol, tier, only, shard, ordinal)
                # replay chains from this recording
                want_chain = only is not None and only.get("what") == "chain"
                if shard[0] == 0 and (want_chain or (only is None and ordinal <= CHAIN_ROOTS[tier] and not (tier == "quick" and div))):
                    c1 = time.process_time()
                    check_chains(prog, scenA, scenB, simulator, origin, scene, path, sim, log, st, viol, tier, only if want_chain else None)
                    st["cpu_chains_s"] += time.process_time() - c1
            if stats.capped:
                raise HarnessError(f"{name}: run exploration capped")
    res["wall"] = time.time() - t0
    st["cpu_s"] = time.process_time() - c0
    return res


def check_recording(prog, scenA, scenB, simulator, origin, scene, path, sim, log, st, viol, tier, only, shard=(0, 1), ordinal=1):
    idx, name, feat, text, mode, steps, div = prog
    do_faults = bool(only) or ordinal <= (REPLAY_FAULT_RECORDINGS_DIV[tier] if div else REPLAY_FAULT_RECORDINGS[tier])
    if shard[0] != 0:
        # other slices: only their share of the replay faults and of the perturbations
        b = {"origin": _origin_json(origin), "path": path, "replay_hex": sim.getReplay().hex()}
        if do_faults:
            check_replay_faults(prog, simulator, scene, sim.getReplay(), list(sim.spans), None, st, viol, b, {"enableDivergenceCheck": div}, shard)
        if div:
            check_divergence(prog, scene, sim.getReplay(), sim, st, viol, b, tier, only, shard)
        return
    view0 = sim_view(sim, log)
    replay = sim.getReplay()
    spans = list(sim.spans)
    st["replay_bytes"] += len(replay)
    base = {"origin": _origin_json(origin), "path": path, "replay_hex": replay.hex()}
    kw = {"enableDivergenceCheck": div}
    want = only.get("what") if only else None
    simdata = None

    # (4) replay under two other RNG paths, three routes
    if want in (None, "replay", "replay-corruption"):
        try:
            simdata = scenA.simulationToBytes(sim)
            st["sim_encodings"] += 1
        except Exception as e:  # noqa: BLE001
            simdata = None
            viol.append((f"simulation-encode-error:{type(e).__name__}:{feat}", f"simulationToBytes raised {e!r}\n{text}", _dcase(prog, what="replay", **base)))
        routes = [("getReplay", lambda w: replay_outcome(simulator, scene, steps, replay, w, **kw))]
        if simdata is not None:
            routes.append(("simulationFromBytes", lambda w: _from_bytes(scenA, simdata, simulator, steps, w, kw)))
            routes.append(("simulationFromBytes-recompiled", lambda w: _from_bytes(scenB, simdata, simulator, steps, w, kw)))
        for rname, route in routes:
            for which in (0, -1):
                out, pts = route(which)
                st["replays"] += 1
                st["replay_rng_points"] += pts
                if out[0] != "sim":
                    viol.append((f"replay-{_outcome_sig(out)}:{feat}", f"replay ({rname}, RNG path {'first' if which == 0 else 'last'} alternatives) of a recorded run did not complete: {out}\n"
                                 f"replay={replay.hex()} original RNG path={path}\n{text}", _dcase(prog, what="replay", **base)))
                    continue
                view1 = sim_view(out[1], out[2])
                if view1 != view0:
                    d = view_diff(view0, view1)
                    viol.append((f"replay-mismatch:{feat}", f"replay ({rname}, RNG path {'first' if which == 0 else 'last'} alternatives; the recording took {path}) differs in {d}: "
                                 f"recorded {[view0[k] for k in d][:3]!r:.500} replayed {[view1[k] for k in d][:3]!r:.500}\nreplay={replay.hex()}\n{text}", _dcase(prog, what="replay", **base)))
                else:
                    st["replays_equal"] += 1

    if want in (None, "replay-corruption") and do_faults:
        st["recordings_fault_enumerated"] += 1
        check_replay_faults(prog, simulator, scene, replay, spans, view0, st, viol, base, kw, shard)
        if simdata is not None:
            # every prefix of simulationToBytes that ends before the replay body must be refused
            scene_len = len(simdata) - len(replay)
            for k in range(scene_len + codec.REPLAY_HEADER_LEN):
                out, _ = _from_bytes(scenA, simdata[:k], simulator, steps, 0, kw)
                st["simbytes_truncations"] += 1
                if out[0] == "refused":
                    st["simbytes_refused"] += 1
                else:
                    where = codec.field_at(codec.layout(scenA, simdata[:scene_len])[0], k) if k < scene_len else codec.field_at(codec.replay_layout(replay, spans), k - scene_len)
                    viol.append((f"simulation-truncated-{'accepted' if out[0] in ('sim', 'rejected') else _outcome_sig(out)}:{where}",
                                 f"the {k}-byte prefix of simulationToBytes (scene part {scene_len} bytes + replay {len(replay)} bytes) {simdata.hex()} gave {out[0] if out[0] == 'sim' else out} instead of SerializationError\n{text}",
                                 _dcase(prog, what="replay-corruption", simcut=k, **base)))

    # (5) divergence
    if div and want in (None, "divergence"):
        check_divergence(prog, scene, replay, sim, st, viol, base, tier, only, shard)


def _from_bytes(scenario, data, simulator, steps, which, kw):
    from scenic.core.serialization import SerializationError
    from scenic.core.simulators import DivergenceError

    ex = ForcedExecution(which)
    dyn.veneer_dirt(reset=True)
    dyn.probe.STATE.reset(default=False)
    with explorer.running(ex):
        try:
            with guarded():
                sim = scenario.simulationFromBytes(data, simulator, maxSteps=steps, maxIterations=1, timestep=1, **kw)
        except _Timeout:
            dyn.veneer_dirt(reset=True)
            return ("hang",), len(ex.points)
        except DivergenceError as e:
            return ("diverged", str(e)), len(ex.points)
        except SerializationError as e:
            return ("refused", str(e)), len(ex.points)
        except Exception as e:  # noqa: BLE001
            dyn.veneer_dirt(reset=True)
            return ("escape", type(e).__name__, str(e)[:160]), len(ex.points)
    if sim is None:
        return ("rejected",), len(ex.points)
    return ("sim", sim, list(dyn.probe.STATE.log)), len(ex.points)


def check_replay_faults(prog, simulator, scene, replay, spans, view0, st, viol, base, kw, shard=(0, 1)):
    """Every truncation and single-byte edit of the replay: completes, is rejected, or raises
    SerializationError / DivergenceError — nothing else."""
    idx, name, feat, text, mode, steps, div = prog
    fields = codec.replay_layout(replay, spans)
    for k in range(len(replay)):
        if k % shard[1] != shard[0]:
            continue
        out, _ = replay_outcome(simulator, scene, steps, replay[:k], 0, **kw)
        st["replay_truncations"] += 1
        kind = codec.field_at(fields, k)
        if out[0] in ("sim", "rejected"):
            st["rt_completed"] += 1
            if 0 < k < codec.REPLAY_HEADER_LEN:
                viol.append((f"replay-truncated-accepted:{kind}", f"{k}-byte prefix of replay {replay.hex()} (inside the header) was accepted\n{text}", _dcase(prog, what="replay-corruption", cut=k, **base)))
        elif out[0] in ("refused", "diverged"):
            st["rt_refused"] += 1
        elif out[0] == "downstream":
            st["rc_downstream"][out[1]] = st["rc_downstream"].get(out[1], 0) + 1
        else:
            viol.append((f"replay-truncation-{_outcome_sig(out)}:{kind}", f"{k}-byte prefix of replay {replay.hex()} (cut inside {kind}): {out}\n{text}", _dcase(prog, what="replay-corruption", cut=k, **base)))
    for off in range(len(replay)):
        if off % shard[1] != shard[0]:
            continue
        kind = codec.field_at(fields, off)
        for ename, edit in EDITS:
            nb = edit(replay[off])
            if nb == replay[off]:
                continue
            bad = replay[:off] + bytes([nb]) + replay[off + 1 :]
            out, _ = replay_outcome(simulator, scene, steps, bad, 0, **kw)
            st["replay_corruptions"] += 1
            if out[0] == "sim":
                st["rc_completed"] += 1
                if off < 2:
                    viol.append((f"replay-header-corruption-accepted:{kind}", f"replay {replay.hex()} with version byte {off} -> {nb:#04x} was accepted\n{text}", _dcase(prog, what="replay-corruption", off=off, edit=ename, **base)))
            elif out[0] == "rejected":
                st["rc_rejected"] += 1
            elif out[0] == "refused":
                st["rc_refused"] += 1
            elif out[0] == "diverged":
                st["rc_diverged"] += 1
            elif out[0] == "downstream":
                # the corrupted bytes decoded to a (wrong) value and the program failed later on it: not judged
                st["rc_downstream"][out[1]] = st["rc_downstream"].get(out[1], 0) + 1
            else:
                st["rc_escape"] += 1
                viol.append((f"replay-corruption-{_outcome_sig(out)}:{kind}", f"replay {replay.hex()} with byte {off} ({kind}) {replay[off]:#04x} -> {nb:#04x}: simulate(replay=...) raised {out[1:]} "
                             f"instead of SerializationError / DivergenceError / completing\n{text}", _dcase(prog, what="replay-corruption", off=off, edit=ename, **base)))


# ---------------------------------------------------------------------------------
# replay CHAINS: a simulation produced by a replay is a simulation; its encoding must replay
# ---------------------------------------------------------------------------------

CHAIN_KS = ("shorter", "equal", "longer")


def chain_ops():
    """Alphabet of one chain step: replay the current encoding for k steps (k <, =, > the steps of
    the run that was encoded), with divergence checking off / on for the replaying run; a run
    continued past the end of its recording draws fresh values along the first / last RNG path."""
    ops = []
    for kc in CHAIN_KS:
        for div in (False, True):
            for which in ((0, -1) if kc == "longer" else (-1,)):
                ops.append((kc, div, which))
    return ops


def chain_root(scenA, scene, sim, log, steps, div):
    return {"view": sim_view(sim, log, full=True), "replay": sim.getReplay(), "simdata": scenA.simulationToBytes(sim), "n": steps, "div": div,
            "scene": scene, "gen": 0, "ops": [], "draws": sim.rt_values, "time": sim.currentTime}


def chain_step(scenB, simulator, state, op):
    """Apply one op to a state: (outcome, new state or None).  Even generations are replayed through
    simulationFromBytes on the recompiled scenario (the scene is decoded, and re-encoded afterwards),
    odd ones through simulate(replay=getReplay()) on the scene of the state."""
    kc, div, which = op
    k = state["n"] + {"shorter": -1, "equal": 0, "longer": 1}[kc]
    if k < 1:
        return None, None
    kw = {"enableDivergenceCheck": div}
    if state["gen"] % 2 == 0:
        out, _ = _from_bytes(scenB, state["simdata"], simulator, k, which, kw)
    else:
        out, _ = replay_outcome(simulator, state["scene"], k, state["replay"], which, **kw)
    if out[0] != "sim":
        return out, None
    sim, log = out[1], out[2]
    try:
        simdata = sim.scene.scenario.simulationToBytes(sim)
    except Exception as e:  # noqa: BLE001
        return ("escape", type(e).__name__, f"simulationToBytes: {e}"[:160]), None
    new = {"view": sim_view(sim, log, full=True), "replay": sim.getReplay(), "simdata": simdata, "n": k, "div": div, "scene": sim.scene,
           "gen": state["gen"] + 1, "ops": state["ops"] + [list(op)], "draws": max(sim.rt_values, getattr(sim, "rt_replayed", 0)), "time": sim.currentTime}
    return out, new


def _prefix_view(view, t):
    """What a run cut at time t must share with the full run."""
    return {"trajectory": view["trajectory"][: t + 1], "actions": view["actions"][:t]}


def judge_chain_step(prog, state, op, out, new, st, viol, base):
    """Oracles for one transition parent --op--> new."""
    idx, name, feat, text, mode, steps, div0 = prog
    kc, div, which = op
    case = lambda what: _dcase(prog, what="chain", ops=state["ops"] + [list(op)], oracle=what, **base)  # noqa: E731
    how = f"generation {state['gen']} ({' -> '.join('/'.join(map(str, o)) for o in state['ops']) or 'the original run'}; {state['n']} steps, {len(state['replay'])} replay bytes) replayed {kc} " \
          f"({state['n'] + {'shorter': -1, 'equal': 0, 'longer': 1}[kc]} steps, divergence checking {'on' if div else 'off'}, RNG path {'first' if which == 0 else 'last'})"
    st["chain_steps"] += 1
    if new is None:
        viol.append((f"chain-replay-{_outcome_sig(out)}:{kc}:{feat}", f"{how} did not complete: {out}\nreplay={state['replay'].hex()}\n{text}", case("completes")))
        return False
    pv, nv = state["view"], new["view"]
    t = min(state["time"], new["time"])
    # (b) the replay reproduces the run it was encoded from (as far as both go)
    if kc == "equal":
        same = pv == nv
        d = view_diff(pv, nv)
    else:
        same = _prefix_view(pv, t) == _prefix_view(nv, t) and (kc != "shorter" or new["time"] == min(state["n"] - 1, state["time"]))
        d = [k for k in ("trajectory", "actions") if _prefix_view(pv, t)[k] != _prefix_view(nv, t)[k]] or ["time"]
    if not same:
        viol.append((f"chain-replay-mismatch:{kc}:{feat}", f"{how} differs from the run that was encoded in {d}: encoded run {[pv[k] for k in d if k in pv][:1]!r:.300} replay {[nv[k] for k in d if k in nv][:1]!r:.300}\n"
                     f"replay={state['replay'].hex()}\n{text}", case("reproduces")))
        return False
    # (a) re-encoding an equal-length faithful replay gives the bytes it was replayed from
    if kc == "equal" and div == state["div"]:
        st["chain_reencodes_compared"] += 1
        if new["replay"] != state["replay"]:
            viol.append((f"chain-reencode-mismatch:equal:{feat}", f"{how} reproduced the run, but its own encoding differs: getReplay() = {new['replay'].hex()} ({len(new['replay'])} bytes), "
                         f"replayed from {state['replay'].hex()} ({len(state['replay'])} bytes)\n{text}", case("idempotent")))
            return False
        if new["simdata"] != state["simdata"]:
            viol.append((f"chain-reencode-mismatch:equal-scene:{feat}", f"{how}: simulationToBytes differs from the bytes it was replayed from: {new['simdata'].hex()} vs {state['simdata'].hex()}\n{text}", case("idempotent")))
            return False
    if state["gen"] >= 1 and new["draws"] > 0:
        st["chain_later_generations_with_draws"] += 1
        if len(new["replay"]) > codec.REPLAY_HEADER_LEN:
            st["chain_later_generations_nontrivial_bytes"] += 1
    if kc == "longer" and new["time"] > state["time"]:
        st["chain_continued_runs"] += 1
    return True


def check_chains(prog, scenA, scenB, simulator, origin, scene, path, sim, log, st, viol, tier, only=None):
    """Breadth-first over op sequences up to CHAIN_DEPTH from one recorded run; states with the same
    (encoding, steps, divergence flag) are expanded once."""
    idx, name, feat, text, mode, steps, div = prog
    base = {"origin": _origin_json(origin), "path": path}
    root = chain_root(scenA, scene, sim, log, steps, div)
    st["chain_roots"] += 1
    if only is not None:
        # re-run exactly one op sequence
        state = root
        for i, op in enumerate(only["ops"]):
            op = tuple(op)
            out, new = chain_step(scenB, simulator, state, op)
            if i == len(only["ops"]) - 1:
                judge_chain_step(prog, state, op, out, new, st, viol, base)
            elif new is None:
                return
            state = new
        return
    frontier = [root]
    seen = {(root["replay"], root["n"], root["div"])}
    ops = chain_ops()
    for depth in range(CHAIN_DEPTH[tier]):
        nxt = []
        for state in frontier:
            for op in ops:
                out, new = chain_step(scenB, simulator, state, op)
                if out is None:
                    continue
                ok = judge_chain_step(prog, state, op, out, new, st, viol, base)
                if not ok or new is None:
                    continue  # a broken generation is reported once; nothing is built on top of it
                key = (new["replay"], new["n"], new["div"])
                if key in seen:
                    st["chain_states_merged"] += 1
                    continue
                seen.add(key)
                nxt.append(new)
                st["chain_states"] += 1
                st["chain_max_generation"] = max(st["chain_max_generation"], new["gen"])
        frontier = nxt
        if len(seen) > CHAIN_MAX_STATES:
            raise HarnessError(f"{name}: more than {CHAIN_MAX_STATES} chain states")


VECTOR_PROPS = ("position", "velocity", "angularVelocity")


def divergence_points(sim):
    """(object index, property, component) of every dynamic value the recording stores."""
    pts = []
    for i, obj in enumerate(sim.objects):
        for prop, ty in type(obj)._simulatorProvidedProperties.items():
            if prop in VECTOR_PROPS:
                for c in range(3):
                    pts.append((i, prop, c))
            elif ty is float:
                pts.append((i, prop, None))
    return pts


def check_divergence(prog, scene, replay, sim, st, viol, base, tier, only, shard=(0, 1)):
    from scenic.core.vectors import Vector

    idx, name, feat, text, mode, steps, div = prog
    final_time = sim.currentTime
    nobj0 = len(scene.objects)
    pts = [p for p in divergence_points(sim) if p[0] < nobj0]
    for key in {p[1] if p[2] is None else f"{p[1]}.{'xyz'[p[2]]}" for p in pts}:
        st["div_props"].setdefault(key, 0)
    if only is None:
        pts = pts[shard[0] :: shard[1]]
    deltas = []
    for tol in (TOL, 0):
        mags = (TOL / 2, 2 * TOL) if tol else (TINY, 0.25)
        for mag in mags:
            for sign in (1, -1):
                deltas.append((tol, sign * mag))
    for (oi, prop, comp) in pts:
        for t in range(final_time + 1):
            for tol, delta in deltas:
                if only is not None and only.get("pert") != [oi, prop, comp, t, tol, delta]:
                    continue

                def perturb(i, p, time_, value, oi=oi, prop=prop, comp=comp, t=t, delta=delta):
                    if i != oi or p != prop or time_ != t:
                        return value
                    if comp is None:
                        return value + delta
                    d = [0.0, 0.0, 0.0]
                    d[comp] = delta
                    return value + Vector(*d)

                psim = C18Simulator(perturb=perturb)
                out, _ = replay_outcome(psim, scene, steps, replay, 0, enableDivergenceCheck=False, divergenceTolerance=tol)
                st["perturbations"] += 1
                expect = abs(delta) > tol
                st["perturb_expected_div" if expect else "perturb_expected_ok"] += 1
                key = prop if comp is None else f"{prop}.{'xyz'[comp]}"
                st["div_props"][key] = st["div_props"].get(key, 0) + 1
                got = out[0] == "diverged"
                if out[0] not in ("diverged", "sim"):
                    viol.append((f"divergence-replay-{_outcome_sig(out)}:{key}", f"replay with {key} of object {oi} perturbed by {delta} at step {t} (tolerance {tol}): {out}\n{text}",
                                 _dcase(prog, what="divergence", pert=[oi, prop, comp, t, tol, delta], **base)))
                    continue
                st["diverged" if got else "not_diverged"] += 1
                if got != expect:
                    sgn = "negative" if delta < 0 else "positive"
                    kindv = "vector" if comp is not None else "scalar"
                    sig = f"divergence-missed:{kindv}:{sgn}" if expect else f"divergence-spurious:{kindv}:{sgn}"
                    viol.append((sig, f"recorded with divergence checking; replay in a simulator reporting {key} of object {oi} off by {delta:+g} at step {t}, divergenceTolerance={tol}: "
                                 f"expected {'DivergenceError' if expect else 'no divergence'} (|delta| {'>' if expect else '<='} tolerance), got {out[0]}{(': ' + out[1]) if got else ''}\n{text}",
                                 _dcase(prog, what="divergence", pert=[oi, prop, comp, t, tol, delta], **base)))
    # continueAfterDivergence: no exception, the run completes
    if only is None and pts and shard[0] == 0:
        oi, prop, comp = pts[0]

        def perturb(i, p, time_, value):
            if i == oi and p == prop and time_ == min(1, final_time):
                return value + Vector(1.0, 0, 0) if comp is not None else value + 1.0
            return value

        out, _ = replay_outcome(C18Simulator(perturb=perturb), scene, steps, replay, 0, divergenceTolerance=0, continueAfterDivergence=True)
        st["continue_after"] += 1
        if out[0] != "sim":
            viol.append((f"continue-after-divergence-{_outcome_sig(out)}", f"continueAfterDivergence=True but the perturbed replay gave {out}\n{text}", _dcase(prog, what="divergence-continue", **base)))


# ---------------------------------------------------------------------------------
# run / replay
# ---------------------------------------------------------------------------------


def check_item(item):
    kind, payload = item
    return kind, (check_static(payload) if kind == "static" else check_dynamic(payload))


def run(ctx):
    import gc

    seams.rng_selftest()
    # everything imported so far is permanent: keep the collector (and copy-on-write in the forked
    # workers) away from it
    gc.collect()
    gc.freeze()
    tier = ctx.tier
    static = gen.static_programs(tier)
    dynamic = gen.dynamic_programs(tier)
    tot = new_stats()
    dtot = new_dyn_stats()
    walls = []

    # one pass over the pool: the sliced divergence programs first (longest), then everything else
    nshard = DIV_SHARDS[tier]
    heavy = [("dynamic", (p, tier, None, (i, nshard))) for p in dynamic if p[6] for i in range(nshard)]
    rest = ctx.rotate([("static", (p, tier, True)) for p in static] + [("dynamic", (p, tier, None)) for p in dynamic if not p[6]])
    results = []
    for kind, r in ctx.pmap(check_item, heavy + rest, chunksize=1):
        walls.append((round(r["wall"], 2), r["name"]))
        if kind == "static":
            results.append(r)
            merge_stats(tot, r["stats"])
        else:
            merge_stats(dtot, r["stats"])
        for sig, desc, case in r["violations"]:
            ctx.violation(sig, desc, case)

    foreign = [(r["name"], r["hash"], r["sample"]) for r in results if r["sample"]]
    by_name = {p[1]: p for p in static}
    fitems = [(by_name[r["name"]], foreign) for r in results]
    for r in ctx.pmap(check_foreign, fitems, chunksize=4):
        merge_stats(tot, r["stats"])
        for sig, desc, case in r["violations"]:
            ctx.violation(sig, desc, case)

    # fresh-process compilations (quick: the cross-compilation programs; thorough: every program)
    fp = [{"name": r["name"], "feature": by_name[r["name"]][2], "text": by_name[r["name"]][3], "mode": by_name[r["name"]][4], "opts": by_name[r["name"]][5], "encs": r["encs"]}
          for r in results if r.get("encs") and (tier != "quick" or r["name"].startswith("x_"))]
    chunk = 60
    fitems = [(hs, fp[i : i + chunk]) for hs in FRESH_PROCESS_HASHSEEDS[tier] for i in range(0, len(fp), chunk)]
    for r in ctx.pmap(fresh_process, fitems, chunksize=1):
        merge_stats(tot, r["stats"])
        for sig, desc, case in r["violations"]:
            ctx.violation(sig, desc, case)

    vc = check_value_codecs(None)
    merge_stats(tot, vc["stats"])
    for sig, desc, case in vc["violations"]:
        ctx.violation(sig, desc, case)

    decodes = tot["roundtrips"] + tot["roundtrips_recompiled"] + tot["truncations"] + tot["corruptions"] + tot["foreign"] + tot["option_variants"] + tot["cross_decodes"] + tot["fresh_process_decodes"]
    refused = tot["trunc_refused"] + tot["corr_refused"] + tot["foreign_refused"] + tot["option_refused"]
    produced = tot["roundtrips"] + tot["corr_scene"]
    # vacuity guards (a violation is never hidden behind a harness error)
    if not ctx.violations:
        guards = {
            "scenes": tot["scenes"], "decodes refused": refused, "decodes producing a scene": produced, "corruptions changing the scene": tot["corr_scene_changed"],
            "header corruptions": tot["header_corruptions"], "foreign refused": tot["foreign_refused"], "option variants refused": tot["option_refused"],
            "recordings": dtot["recordings"], "replays equal": dtot["replays_equal"], "run-time values recorded": dtot["rt_values"],
            "replays diverged": dtot["diverged"], "replays not diverged": dtot["not_diverged"],
            "replay corruptions": dtot["replay_corruptions"],
            "decodes by set-order compilations": tot["set_order_compilations"], "decodes by other compilations": tot["cross_decodes"],
            "behaviour-visible globals compared": tot["globals_compared"], "decoded scenes simulated": tot["decoded_simulations"],
            "recordings replayed on another compilation": tot["cross_replays"], "requirement re-checks": tot["requirement_rechecks"],
            "fresh-process decodes": tot["fresh_process_decodes"],
            "replay-chain steps": dtot["chain_steps"], "chain generations >= 2 with run-time draws": dtot["chain_later_generations_with_draws"],
            "chain generations >= 2 whose re-encoded replay is more than a header": dtot["chain_later_generations_nontrivial_bytes"],
            "equal-length re-encodings compared": dtot["chain_reencodes_compared"], "replays continued past their recording": dtot["chain_continued_runs"],
        }
        if dtot["chain_max_generation"] < 2:
            raise HarnessError("vacuous: no replay chain reached generation 2")
        for k, v in guards.items():
            if v == 0:
                raise HarnessError(f"vacuous: {k} = 0")
        for c in ("int8", "int16", "int32", "intbig"):
            if tot["int_classes"].get(c, 0) == 0:
                raise HarnessError(f"vacuous: integer width class {c} never encoded")
        missing = [v for v in codec.INT_BOUNDARY_VALUES if v not in tot["int_values"]]
        if missing:
            raise HarnessError(f"vacuous: width-boundary values never sampled in a scene: {missing}")
    walls.sort(reverse=True)
    ctx.cov.update(
        evaluations=decodes + dtot["chain_steps"] + dtot["replays"] + dtot["perturbations"] + dtot["replay_corruptions"] + dtot["replay_truncations"] + tot["value_codec"],
        distinct_nontrivial=tot["corr_scene_changed"] + dtot["diverged"],
        rule="all programs of gen/c18_gen.py (value atoms x slots + object-level programs; dynamic programs) x ALL scenes (every RNG outcome of generate(); "
        "5-point lattice per continuous draw; seeds 0..k-1 for Normal / mutate / mesh regions) x {round trip (original + recompiled scenario), every proper prefix, "
        "every offset x {^01,^80,=00,=FF}} + all-pairs foreign bytes + option variants; simulations: every RNG outcome of the run x replay under the first- and "
        "last-alternative RNG paths through 3 routes, every truncation / byte edit of the replay, every (object, dynamic property component, step, sign, magnitude, tolerance) "
        "perturbation. non-trivial = corruption decoding to a DIFFERENT scene, or perturbed replay reported divergent",
        samples=[{"program": static[0][1], "text": static[0][3]}, {"program": static[len(static) // 2][1], "text": static[len(static) // 2][3]}, {"program": dynamic[0][1], "text": dynamic[0][3]}],
        programs_static=len(static), programs_dynamic=len(dynamic),
        scenes=tot["scenes"], scenes_rejected=tot["rejected"], encodings=tot["encodings"], encodings_fault_enumerated=tot["encodings_enumerated"],
        duplicate_encodings=tot["duplicate_encodings"], hang_edits_skipped=tot["hang_skipped"], foreign_same_hash=tot["foreign_same_hash"], encoded_bytes=tot["bytes"], max_encoding_len=tot["max_len"],
        roundtrips=tot["roundtrips"], roundtrips_recompiled=tot["roundtrips_recompiled"],
        truncations=tot["truncations"], truncations_refused=tot["trunc_refused"], truncations_accepted=tot["trunc_accepted"],
        corruptions=tot["corruptions"], corruptions_refused=tot["corr_refused"], corruptions_scene=tot["corr_scene"], corruptions_scene_changed=tot["corr_scene_changed"],
        corruptions_escape=tot["corr_escape"], corruption_noop_edits_skipped=tot["corr_noop"], header_corruptions=tot["header_corruptions"],
        foreign_decodes=tot["foreign"], foreign_refused=tot["foreign_refused"], option_variant_decodes=tot["option_variants"], option_variants_refused=tot["option_refused"],
        decodes=decodes, decodes_refused=refused, decodes_scene=produced,
        cpu_s={"static_and_fresh_process": round(tot["cpu_s"], 1), "dynamic": round(dtot["cpu_s"], 1), "of_which_other_compilations": round(tot["cpu_other_compilations_s"], 1),
               "of_which_replay_chains": round(dtot["cpu_chains_s"], 1)},
        replay_chains={k: dtot[k] for k in dtot if k.startswith("chain_")},
        set_order_compilations=tot["set_order_compilations"], set_order_choice_points=tot["set_order_choice_points"], set_order_capped_programs=tot["set_order_capped_programs"],
        other_compilation_decodes=tot["cross_decodes"], other_compilation_comparisons=tot["cross_comparisons"], behaviour_globals_compared=tot["globals_compared"],
        requirement_rechecks=tot["requirement_rechecks"], decoded_scene_simulations=tot["decoded_simulations"], recordings_replayed_on_other_compilation=tot["cross_replays"],
        fresh_process_programs=tot["fresh_process_programs"], fresh_process_decodes=tot["fresh_process_decodes"], fresh_process_hashseeds=list(FRESH_PROCESS_HASHSEEDS[tier]),
        int_width_classes=tot["int_classes"], int_boundary_values_seen=sorted(tot["int_values"]), fields_hit=tot["fields"], unparsed_layouts=tot["unparsed_layouts"],
        decodes_that_drew_random_numbers=tot["decode_rng_draws"], value_codec_evaluations=tot["value_codec"], value_codec_counts=vc["counts"],
        dynamic=dtot, slowest=walls[:5],
        bounds={"lattice_n": LATTICE_N, "seeds": SEEDS[tier], "edits": [e[0] for e in EDITS], "tolerances": [0, TOL], "deltas": [TOL / 2, 2 * TOL, TINY, 0.25]},
    )
    if tot["hang_skipped"]:
        ctx.cov["exhaustive"] = False
        ctx.cov["cap"] = f"{tot['hang_skipped']} byte edits skipped after {HANG_REPEATS} confirmed hangs at the same (offset, edit) of the same program"
    ctx.assumptions += [
        "CPython random.randint/choices/choice reduce to random()/_randbelow() (rng_selftest)",
        "Normal / mutate / mesh-region sampling (gauss, numpy) are covered with fixed seeds 0..k-1, all enumerated; every other program with every RNG outcome",
        "ScriptedSimulator is deterministic: a replay that follows the recording reproduces it exactly",
        "other compilations = a recompilation, one compilation per iteration order of every `set` created in scenic.core.requirements / "
        "scenic.core.dynamics.scenarios / scenic.core.scenarios while the scenario is built (seam installation asserted; 0 choice points means "
        "no such set exists), and fresh interpreters with other PYTHONHASHSEEDs",
    ]


def _as_prog(case):
    return (0, case["name"], case["feature"], case["text"], case["mode"], case.get("opts") or {})


def _find_scene(scenario, mode, origin, tier):
    scenes, _ = enumerate_scenes(scenario, mode, tier)
    for o, s in scenes:
        if _origin_json(o) == origin:
            return o, s
    raise HarnessError(f"scene {origin} not found on replay")


def replay(ctx, case):
    kind = case["kind"]
    viol = []
    if kind == "value":
        r = check_value_codecs(None)
        viol = [v for v in r["violations"] if v[2].get("type") == case["type"] and v[2].get("value") == case["value"] and v[2].get("cut") == case.get("cut") and v[2].get("off") == case.get("off") and v[2].get("edit") == case.get("edit")]
    elif kind == "dynamic":
        prog = (0, case["name"], case["feature"], case["text"], case["mode"], case["steps"], case["div"])
        only = {"origin": case["origin"], "path": case["path"], "what": case.get("what"), "pert": case.get("pert"), "ops": case.get("ops")}
        r = check_dynamic((prog, "thorough", only))
        keys = ("what", "pert", "off", "edit", "cut", "simcut", "ops", "oracle")
        viol = [v for v in r["violations"] if all(v[2].get(k) == case.get(k) for k in keys)]
    elif kind == "other-compilation":
        prog = _as_prog(case)
        scenA = compile_first(prog[3], prog[5])
        origin, scene = _find_scene(scenA, prog[4], case["origin"], "thorough")
        snap, data, extra = encode_scene(scenA, scene, prog[5])
        st = new_stats()
        check_compilations(prog, scenA, set_order_compilations(prog, "thorough", st), "thorough", [(origin, snap, data, extra)], st, viol, only={"comp": case.get("comp"), "set_order": case.get("set_order")})
        viol = [v for v in viol if v[2].get("what") == case.get("what")]
    elif kind == "fresh-process":
        p = {"name": case["name"], "feature": case["feature"], "text": case["text"], "mode": case["mode"], "opts": case.get("opts") or {}, "encs": [case["enc"]] if case.get("enc") else []}
        # the order of a real set depends on memory addresses: try the recorded hash seed, then a few others
        for hs in [case["hashseed"]] + [h for h in range(1, 9) if h != case["hashseed"]]:
            viol = [v for v in fresh_process((hs, [p]))["violations"] if v[2].get("what") == case.get("what")]
            if viol:
                break
    elif kind == "foreign":
        prog = _as_prog(case)
        f = case["foreign"]
        viol = check_foreign((prog, [(f[0], tuple(f[1]), f[2])]))["violations"]
    elif kind == "variant":
        prog = _as_prog(case)
        st = new_stats()
        scenA = compile_scenario(prog[3], prog[5])
        sc, _ = enumerate_scenes_first(scenA, prog[4])
        check_option_variants(prog, scenA, scenA.sceneToBytes(sc), st, viol)
        viol = [v for v in viol if v[2].get("variant") == case.get("variant") and bool(v[2].get("reverse")) == bool(case.get("reverse"))]
    else:
        prog = _as_prog(case)
        scenA = compile_first(prog[3], prog[5])
        scenB = compile_first(prog[3], prog[5])
        origin, scene = _find_scene(scenA, prog[4], case["origin"], "thorough")
        st = new_stats()
        check_encoding(prog, scenA, scenB, origin, encode_scene(scenA, scene), st, viol, do_faults=True, only=kind)
        if kind == "roundtrip" and "which" in case:
            viol = [v for v in viol if v[2].get("which") == case["which"]]
        elif kind == "truncation":
            viol = [v for v in viol if v[2].get("cut") == case["cut"]]
        elif kind == "corruption":
            viol = [v for v in viol if v[2].get("off") == case["off"] and v[2].get("edit") == case["edit"]]
    for sig, desc, c in viol:
        ctx.violation(sig, desc, c)


if __name__ == "__main__" and len(sys.argv) > 1 and sys.argv[1] == "child":
    child_main()
