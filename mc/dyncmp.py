"""Compare one implementation run with the reference step machine."""

from . import dyn
from models import stepmachine as sm


def impl_view(res):
    """(outcome, log) of an implementation run in the machine's vocabulary."""
    log = [e for e in dyn.normalize_log(res["log"]) if e[1] != "destroy" and not (isinstance(e[1], str) and e[1].startswith("?"))]
    return res["outcome"], log


def model_view(prog, tables, default=False, schedule=None, raise_guards=False, variant=None, pick=None):
    m = sm.Machine(prog, tables=tables, default=default, schedule=schedule, raise_guards=raise_guards, variant=variant, pick=pick)
    out, log = m.run()
    return out, log


def outcomes_agree(impl_out, model_out):
    if model_out[0] == "done":
        return impl_out[0] == "done" and impl_out[1] in model_out[1] and tuple(impl_out[2:]) == tuple(model_out[2:])
    return tuple(impl_out) == tuple(model_out)


def compare(res, prog, tables, default=False, schedule=None, raise_guards=False, variant=None, pick=None):
    """Return None if the run agrees with the machine, else a description dict."""
    iout, ilog = impl_view(res)
    mout, mlog = model_view(prog, tables, default, schedule, raise_guards, variant, pick)
    if iout[0] == "error":
        return {"kind": "error", "impl": iout, "model": _j(mout)}
    if not outcomes_agree(iout, mout):
        return {"kind": "outcome", "impl": iout, "model": _j(mout), "impl_log": ilog[-12:], "model_log": mlog[-12:]}
    if ilog != mlog:
        # first difference
        i = 0
        while i < min(len(ilog), len(mlog)) and ilog[i] == mlog[i]:
            i += 1
        return {"kind": "trace", "at": i, "impl": ilog[max(0, i - 3) : i + 4], "model": mlog[max(0, i - 3) : i + 4], "outcome": iout}
    return None


def _j(out):
    return tuple(sorted(x) if isinstance(x, frozenset) else x for x in out)
