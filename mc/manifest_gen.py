"""Regenerate /verif/MANIFEST.json from the table below (keeps it valid at all times).

Usage: python3 mc/manifest_gen.py
"""

import json
import pathlib

VERIF = pathlib.Path(__file__).resolve().parent.parent

BASE_CMD = "cd /repo && /venv/bin/python -m pytest -ra -q -p no:cacheprovider --timeout=900 --continue-on-collection-errors"

# id -> (category, engine, technique, text, note, design_ref)
CHECKS = {
    "C01": (
        "model_checking",
        "explorer+RngSeam+dist",
        "exhaustive enumeration of every RNG outcome (stateless choice-tree exploration of the real sampler) for every "
        "program of a bounded grammar, compared with an exact reference distribution",
        "All programs of the finite-discrete fragment up to the size bound x the complete choice tree of the random "
        "number generator inside Scenario._generateInner (maxIterations 1..3): the exact Fraction-valued law of "
        "(scene, iteration count)/rejection equals the law computed by the reference model models/dist.py.",
        "Trusted: the explorer/LazyUniform seam (self-tested at start-up: leaf weights sum to 1, CPython's "
        "randint/choices/choice reduce to random()/_randbelow()), the 60-line reference model. Bound: <=3 bound "
        "names, leaf arity <=4.",
        "3/C01",
    ),
    "C12": (
        "model_checking",
        "explorer+ScriptedSimulator+stepmachine",
        "bounded-exhaustive enumeration of dynamic programs x condition truth tables x agent schedules (deviation-bounded), "
        "every implementation trace compared with an explicit reference step machine",
        "All behavior bodies up to the length bound over the dynamic statement alphabet x top-level termination constructs x "
        "truth tables with <=2 conditions firing x timestep/step-limit variants x all agent schedules with <=2 non-default "
        "permutations: the full event trace (compose/record/monitor/behavior/exec/step/update order), trajectory and action-log "
        "lengths, termination step and kind equal those of the reference machine written from docs/reference/dynamic_scenarios.rst.",
        "Trusted: the reference machine models/stepmachine.py (written from the reference text; points on which the text is silent "
        "are not judged and listed in the evidence), the scripted simulator, conditions being pure functions of the step.",
        "3/C12",
    ),
    "C13": (
        "model_checking",
        "ScriptedSimulator+stepmachine",
        "bounded-exhaustive enumeration of interrupt programs x ALL truth tables of the interrupt conditions (and guard failure "
        "points), every trace compared with the reference interrupt scheduler",
        "All programs of the interrupt fragment (1-2 handlers, nested statements, handlers that take/do/abort/break/continue/return, "
        "inside loops and sub-behaviours, with guards) x every step-indexed truth table of the interrupt conditions over the first "
        "steps: the action sequence, event trace and rejection/GuardViolation outcome equal the reference scheduler; every program of "
        "the fragment must compile.",
        "Trusted: the interrupt scheduler of models/stepmachine.py (from statements.rst), conditions pure functions of the step. "
        "One known finding is attributed by differential substitution (see known_findings.json).",
        "3/C13",
    ),
    "C07": (
        "exploration",
        "pose-lattice+frames",
        "bounded-exhaustive enumeration of a pose lattice (parent orientation x yaw/pitch/roll x dimensions x argument kinds) for every "
        "specifier/operator, judged by an independent 3x3-matrix oracle",
        "Every directional specifier, the facing family, beyond / offset by / offset along / relative to / following / on, the 18 side "
        "operators, distance / angle / altitude / relative heading / apparent heading and the Orientation algebra laws, over 637 (quick) / "
        "7644 (thorough) poses x ~130 cases each, through the veneer API and through compiled Scenic source text, against models/frames.py.",
        "Trusted: models/frames.py (own rotation algebra written from the reference: heading 0 = +Y, CCW positive, intrinsic ZXY). Points on "
        "which the reference is silent or self-contradictory are counted as unspecified, not judged.",
        "3/C07",
    ),
    "C19": (
        "model_checking",
        "explorer+RngSeam+stepmachine",
        "exhaustive enumeration of every RNG outcome during the simulation (exact weights) for every program/precondition table, exact "
        "distribution compared with the reference machine's",
        "All sets of 2-3 sub-behaviours with weights from {0.5,1,2,3} (dict/list forms), choose and shuffle, once / twice / in a loop, and "
        "run-time Uniform/Discrete/DiscreteRange draws, x constant and switching precondition tables x the complete RNG choice tree: the "
        "exact distribution over (event trace, outcome) equals the reference machine's (pick proportional to weight among enabled, "
        "not-yet-run items; deadlock rejects).",
        "Trusted: explorer/RngSeam (self-tested), models/stepmachine.py pick rule from statements.rst. Covers behaviors and compose blocks (choose/shuffle over sub-scenarios).",
        "3/C19",
    ),
    "C11": (
        "model_checking",
        "ScriptedSimulator+fltl",
        "bounded-exhaustive enumeration of formulas x ALL truth traces up to a length bound x declaration sites, verdicts compared with a "
        "finite-trace LTL evaluator; early rejections checked by brute force over all continuations",
        "All formulas of depth <= 2 over two atoms (fully parenthesised, plus the reference's unparenthesised forms) x every truth trace of "
        "length 1..3 (thorough 1..4) x {top level, setup of a sub-scenario started at step 0/1, compose block at step 0/1}: accepted iff "
        "the trace from the step the statement takes effect to the end of its scenario satisfies the formula (strong next/until); "
        "rejection before the end only if no continuation satisfies; `always` of a non-temporal condition rejects at once; non-temporal "
        "and/or/not/implies over the value alphabet {0,1,2,'','x'} have their Python truthiness meaning.",
        "Trusted: models/fltl.py (40 lines). One known finding in the third-party rv_ltl package is attributed by substituting a corrected "
        "monitor.",
        "3/C11",
    ),
    "C06": (
        "model_checking",
        "specres+permutations",
        "bounded-exhaustive enumeration of specifier multisets and ALL their permutations, each resolution compared with a reference "
        "resolver driven by the table parsed from docs/reference/specifiers.rst",
        "All sub-multisets (size <= 2 over the quick instance set on 10 classes in 2D/3D, size 3 on a core set; thorough: size <= 3/4) of "
        "112 built-in specifier instances x every permutation: winner and modifier per property, dependency-respecting evaluation order, "
        "error kind (ambiguity, cycle, final, missing dependency), order independence, and table conformance of priorities / dependencies "
        "with the reference, through the veneer API and through compiled Scenic text.",
        "Trusted: models/specres.py (resolver written from the documented 5-step procedure) and its rst table parser; semantics of "
        "additive/dynamic/final defaults taken as assumptions listed in the evidence.",
        "3/C06",
    ),
    "C14": (
        "fault_enumeration",
        "crash-point enumeration+ScriptedSimulator",
        "exhaustive crash-point enumeration: every visit of every fault site of the recorded fault-free history x every exception kind, "
        "followed by every later use, with invariant and differential oracles",
        "For three programs covering all callback kinds (requirements, specifier arguments, model import, setup/compose blocks, behaviors, "
        "sub-behaviours under do-for/until/choose and try-interrupt, monitors, guards, interrupt conditions, records, action application, "
        "overrides) and every simulator interface call: each of the ~190 recorded visits x 4 exception kinds is a crash point; after it the "
        "veneer globals / Scenic module table are pristine, every object property reads as before, and simulate / generate / recompile / "
        "compile-another reproduce the pre-fault reference exactly (references cross-checked against a clean process); overrides are undone "
        "when their scenario ends.",
        "Trusted: the probe module and scripted simulator; the pre-fault reference run of each program. Bound: the three programs, fault "
        "depth 1 (2 in the thorough tier).",
        "3/C14",
    ),
    "C04": (
        "exploration",
        "placement-lattice+route-forcing+solid",
        "bounded-exhaustive enumeration of shape pairs x placements x orientations x sizes, every internal decision route forced in turn, "
        "judged by an independent exact solid-geometry oracle on the raw meshes",
        "All ordered pairs of {box, cylinder, cone, spheroid, two-body mesh, L mesh} x placement lattice (apart / gap 0.05 / overlap / deep / "
        "nested in cavities) x orientations x sizes, and the same objects against 7-9 containers (box, convex / non-convex / hollow mesh "
        "volumes, polygon footprint with hole, intersection and difference regions): Object.intersects, the operators and requirement "
        "classes, containsObject and minimumDistanceTo agree with models/solid.py on every case with |margin| >= 1e-4, for each of 11-14 "
        "internal routes (each early-exit pass disabled in turn, the deciding pass observed with sys.monitoring).",
        "Trusted: models/solid.py (segment-triangle, ray-parity with 8 generic rays cross-checked against winding number and closed forms at "
        "start-up, exact surface distance). numpy's global seed is fixed before each evaluation because containsObject samples internally.",
        "3/C04",
    ),
    "C15": (
        "exploration",
        "SetOrderSeam+ClockSeam+fresh processes",
        "exhaustive enumeration of the iteration orders of identity-hashed sets, of requirement-check orderings (deviation-bounded scripted "
        "clock) and of checker histories, with fixed RNG seeds and a differential oracle",
        "For six programs (requirement-only random values, soft requirements, numpy-sampled mesh regions with a containment check that "
        "consumes randomness internally, run-time random values in behaviors/monitors) and fixed seeds: every set iteration order, every "
        "check ordering with <=2 (3) non-default durations, 0..2 (3) previously generated scenes, and fresh processes for a list of "
        "PYTHONHASHSEED values all yield bit-identical scenes, iteration counts, simulation results and final RNG states.",
        "Trusted: the seams (a module-global `set` shadowing the builtin in scenic.core.requirements / dynamics.scenarios; scripted "
        "perf_counter in sample_checking). Address-space layout itself cannot be enumerated; its only effect on the code is enumerated.",
        "3/C15",
    ),
    "C02": (
        "model_checking",
        "explorer+RngSeam+ClockSeam+solid",
        "exhaustive enumeration of RNG outcomes x requirement-check orderings (scripted clock, deviation-bounded) x checker histories on the "
        "real sampler; every accepted scene re-verified by an independent geometric oracle",
        "28 programs (2-3 objects over discrete alphabets of shape / size / position / yaw / allowCollisions; workspace, regionContainedIn and "
        "polygon-with-hole containers; visible / not visible from / requireVisible with an occluding wall; hard and soft user requirements): "
        "every RNG outcome of the scene under test x every scripted duration vector with <=1 (thorough 2) slow evaluations x 2-3 scenes in a "
        "row on one Scenario; each accepted scene has no overlapping non-colliding pair, is inside its container, respects (in)visibility in "
        "the clear-cut cases and satisfies hard + selected soft user requirements.",
        "Trusted: models/solid.py, models/view_c17.py; cases within 1e-4 of touching are skipped and counted. One-sided by design (the property "
        "is about accepted scenes).",
        "3/C02",
    ),
    "C17": (
        "exploration",
        "pose/target lattice x occluder subsets + view oracle",
        "bounded-exhaustive enumeration of viewer kinds x poses x view angles x distances x target lattice x ALL subsets of an occluder set, "
        "judged by an independent view-volume / sight-line oracle, through every plumbing route",
        "204 (thorough 3126) viewer configurations (Point / OrientedPoint / Object with camera offset; rotated, away from the origin; 12 view-angle "
        "sets; 3 distances) x a target lattice around every angular and radial bound x all 8 subsets of 3 occluders for points (exact, both "
        "directions) and 1608 (22392) object placements x 5 shapes x ray settings (one-sided + monotonicity in the occluder set), asked through "
        "canSee, the `can see` operator, visibleRegion.containsPoint, the requirement classes and compiled programs.",
        "Trusted: models/view_c17.py (own ZXY rotations, segment-triangle tests). Targets within 2 deg / 5% of a bound, grazing sight lines and "
        "sparse-ray cases are counted, not judged.",
        "3/C17",
    ),
    "C16": (
        "exploration",
        "region-pair lattice + solid_c16",
        "bounded-exhaustive enumeration of all ordered pairs of region kinds x set operations x a 3-D probe lattice (plus on-set probes), "
        "judged by independent analytic membership / distance predicates",
        "13 region kinds (planar ones at non-zero z) -> all 169 ordered pairs (thorough: 676 with two shapes/poses each) x {intersect, union, "
        "difference} x eager and lazy operands: membership of ~340k (3M) probes equals the Boolean combination of the operands' oracle "
        "membership; `intersects`, `containsRegion`, `distanceTo`, `projectVector` (nearest hit along +-direction), AABB, size and "
        "inclusion-exclusion identities agree with the oracle.",
        "Trusted: models/solid_c16.py (numpy only). Probes within the margin of a boundary are skipped and counted; pairs the library refuses "
        "are counted. Three design-level deviations (planar results rebuilt at z=0, polygon x polyline height, footprint-column membership) are "
        "known findings listed by exact signature.",
        "3/C16",
    ),
    "C18": (
        "fault_enumeration",
        "RngSeam + truncation/corruption/divergence enumeration",
        "exhaustive fault enumeration: every proper prefix and every single-byte corruption (4 edits per offset) of every encoding of "
        "every scene (all RNG outcomes), every (property, object, step, sign, magnitude) replay perturbation",
        "55 (thorough 452) programs covering every value type and integer width class x all scenes (RNG tree, lattice for continuous draws): "
        "round trip with the same and a recompiled scenario is exact; foreign programs / other options / every truncation are refused with "
        "SerializationError; every single-byte corruption gives a scene or SerializationError, never another exception or a hang; replays "
        "reproduce trajectory / actions / records under a different RNG path; with divergence checking DivergenceError iff |delta| > tol for "
        "both signs of every dynamic property of every object at every step.",
        "Trusted: the byte model models/codec_c18.py only labels fields; equality is decided on decoded scenes. Hang guard counts user CPU "
        "time. Two known findings (mutate noise redrawn on decode; options hash ignores value types).",
        "3/C18",
    ),
    "C05": (
        "exploration",
        "expression-tree enumeration + RngSeam/lattice + plain-Python evaluator",
        "bounded-exhaustive enumeration of well-typed expression trees (74 productions) x every outcome of their random leaves (exact RNG tree "
        "for discrete leaves, 5-point lattices for continuous ones), node-local comparison with plain Python",
        "13 353 (thorough 138 225) expression trees over scalar / vector / orientation / container / string leaves: every sampled node equals "
        "the Python operation applied to the sampled values of its operands (forward, reverse and identity-shortcut forms for int- and "
        "float-valued operands, attributes, indexing, lifted calls with keyword operands, containers, star-unpacking), through the API and, "
        "for a simplest-first prefix, through compiled Scenic source; self-dependent defaults and delayed specifier arguments are evaluated "
        "against the final properties; supportInterval of every node contains every value produced.",
        "Trusted: the plain-Python model in gen/expr_c05.py. Python-raises cases only demand that Scenic raises too.",
        "3/C05",
    ),
    "C20": (
        "model_checking",
        "network graph traversal + cache-protocol BFS",
        "exhaustive traversal of every element and link of every shipped network with a probe lattice per element, and explicit-state BFS "
        "over cache operation sequences against a reference model, every model trace replayed on the implementation",
        "(A) 11 (thorough: 18 maps x 16 option sets + single-element deletion variants of the 6 smallest) networks: 170 relation kinds — "
        "reciprocity of all links, geometric side of adjacent lanes, lookups at ~18k (557k) probes return containing elements with the documented "
        "priority, children inside parents within tolerance, drivable area covered, roadDirection tangent to centrelines, cached == parsed. "
        "(B) cache protocol: all operation sequences up to depth 3 (4) over a 17-letter alphabet (loads with 2 option sets, map edits, header / "
        "version / digest damage, truncation, deletion): 39 (60) states, 291 (669) transitions, 5219 (88740) traces; every load returns the "
        "network of the predicted (map, options) and uses / ignores the cache as the model says.",
        "Trusted: models/cache_c20.py, the check's own STR-tree / shapely oracle. Town03/Town05 are empty files in this sandbox and skipped. "
        "Damaged cache *payloads* and option sets for which a shipped map does not build are counted, not judged. One known finding "
        "(children outside parents by up to 1.15 x tolerance on two maps).",
        "3/C20",
    ),
    "C03": (
        "exploration",
        "sampler seam (exact + lattice) + measure oracle",
        "every sampler driven through ALL its discrete branches (exact weights) and a complete quantile lattice of its continuous draws; "
        "membership, support and uniformity judged by deterministic interval / density bounds against an independent measure oracle",
        "17 region kinds and 24 (thorough: all 396 ordered pairs x 3 operations, 3 parameter sets) compositions: discrete regions give "
        "exactly uniform laws over the members of the composed set; for continuous regions every lattice image is a member (3 coordinates, "
        "independent analytic predicates), every part of positive measure is reached, and the pushforward of the N^k lattice is uniform "
        "within a derived discretisation bracket (interval test) and a 5% density test (finite-difference Jacobian) — for compositions with "
        "respect to the measure of the composed set.",
        "Trusted: models/measure_c03.py (no Scenic / trimesh / shapely), the seam overrides in the check. Uniformity is claimed for the "
        "lattice pushforward, not for all real-valued draws; features thinner than a lattice box are not resolved (counted).",
        "3/C03",
    ),
    "C08": (
        "exploration",
        "program generator + sampler lattice, pruned vs unpruned",
        "bounded-exhaustive program generator x complete lattice of the unpruned sampler's random inputs; every accepted lattice scene must "
        "survive pruning and vice versa; watchdog for termination",
        "81 (thorough 1054) programs over containment (2D/3D, offsets), distance and relative-heading requirements in every syntactic form "
        "the matcher handles or must ignore, and visibility constructs: each compiled with and without pruning; every lattice scene accepted "
        "without pruning has its base point in the pruned region (own containsPoint and independent polygon / solid membership), every scene "
        "accepted with pruning lies in the original region and satisfies the requirements, non-positional properties are identical, infeasible "
        "is reported only when the lattice found no feasible scene, and compilation finishes within 60 CPU-s.",
        "Trusted: the lattice seam of the check, membership predicates of models/solid.py. Two-object programs judge a candidate relative to a "
        "coarse partner lattice (every accepted scene is genuine).",
        "3/C08",
    ),
    "C09": (
        "translation_validation",
        "bounded-exhaustive Python program generator + finite corpus, CPython's parser as reference",
        "translation validation over a bounded-exhaustive enumeration of Python programs (every parent/field/child triple of Python 3.12's "
        "abstract grammar, operator nestings, literal / layout forms, soft keywords) plus a completely enumerated corpus; oracle: ast.dump "
        "equality with CPython's own parser after the documented rewrites",
        "about 100 000 (thorough: depth-3 closure, embedded fragments in behaviors / monitors / requirements / specifiers, the whole standard "
        "library) Python programs satisfying the property's precondition: the tree produced by Scenic's parser + compiler equals "
        "ast.parse's tree (include_attributes=True: every node, field, line and column) after exactly the documented rewrites, and the "
        "translated module compiles. Programs using Scenic's reserved words are excluded and counted; nodes sitting on a token to which the "
        "reference gives a Scenic meaning are excused individually and counted.",
        "Trusted: gen/pysyntax.py (generator), the RefRewriter in the check (documented rewrites), CPython's ast module. Known findings: "
        "column offsets counted in characters instead of UTF-8 bytes, raw f-string format specs (a CPython quirk), `a[b]: c` in a class body "
        "(deliberately Scenic syntax), walrus / type-alias targets that are behavior locals.",
        "3/C09",
    ),
    "C10": (
        "exploration",
        "mutation explorer (deviation-bounded) over a finite seed corpus + documented grammar forms",
        "deviation-bounded exploration: 0 mutations (every seed program and every expansion of every grammar form quoted by the reference), "
        "every form derivable from the Scenic-specific grammar rules with each optional part absent / present (2 741 forms x 8 contexts), "
        "then EVERY single token / line / truncation mutation of the selected seeds (thorough: all pairs on the smallest seeds); oracle: "
        "scenario or located ScenicSyntaxError, never another exception, a hang or dirty global state",
        "1060 seeds (all test snippets, examples, library files, documentation blocks), 573 expansions of the 85 documented forms (all must be "
        "accepted) and about 190 000 single mutants: each either compiles or raises a ScenicSyntaxError whose line lies inside the text; no "
        "other exception type, no raw SyntaxError, no hang (CPU watchdog), and the veneer's global state is pristine afterwards.",
        "Trusted: gen/mutate.py, the watchdog, the list of documented forms transcribed from docs/reference. The mutation space beyond "
        "distance 1 (thorough 2) from the seeds is not covered.",
        "3/C10",
    ),
}

NOT_YET = {}

ALL = [f"C{i:02d}" for i in range(1, 21)]


def main():
    checks = []
    for pid in ALL:
        if pid not in CHECKS:
            continue
        cat, engine, technique, text, note, ref = CHECKS[pid]
        checks.append(
            {
                "property_id": pid,
                "quick_cmd": f"./check {pid} --tier quick",
                "thorough_cmd": f"./check {pid} --tier thorough",
                "evidence_file": f"/verif/evidence/{pid}.json",
                "replay_cmd_template": f"./check {pid} --replay {{path}}",
                "engine": engine,
                "level_claimed": {"category": cat, "text": text, "design_ref": f"DESIGN.md section {ref}"},
                "level_note": note,
                "technique": technique,
            }
        )
    na = []
    for pid in ALL:
        if pid not in CHECKS:
            na.append(
                {
                    "property_id": pid,
                    "reason": NOT_YET.get(pid, "check not built yet in this session (see DESIGN.md section 3 for the planned bounded-exhaustive check); not claimed until it runs clean on the unchanged tree"),
                }
            )
    man = {
        "version": 1,
        "setup_cmd": "./setup.sh",
        "hooks": {
            "guard": "SCENIC_VERIF",
            "enable": "all seams are harness-side monkeypatches applied by ./check (which exports SCENIC_VERIF=1); no source hooks are committed to /repo",
            "baseline_off_cmd": BASE_CMD,
            "source_commits": [],
            "add_only": True,
        },
        "engines": [
            {
                "name": "explorer",
                "path": "mc/explorer.py",
                "serves_properties": sorted(CHECKS),
                "kind_free_text": "stateless depth-first choice explorer for sequential Python code with exact rational weights, deviation bounding and replay validation; seams in mc/seams.py put random/time/set-order/simulator answers under it",
            }
        ],
        "checks": checks,
        "not_applicable": na,
        "notes": "Technique family: model checking (bounded exhaustive enumeration of executions/programs/fault points with a per-execution oracle or reference model). See DESIGN.md. known_findings.json lists genuine defects (known / fixed).",
    }
    (VERIF / "MANIFEST.json").write_text(json.dumps(man, indent=1) + "\n")


if __name__ == "__main__":
    main()
