"""Harness for dynamic Scenic programs: ScriptedSimulator + run helpers (DESIGN §2.2)."""

from __future__ import annotations

import itertools
import os
import pathlib
import sys

_PROBE_DIR = str(pathlib.Path(__file__).resolve().parent.parent / "probe")
if _PROBE_DIR not in sys.path:
    sys.path.insert(0, _PROBE_DIR)

import verif_probe as probe  # noqa: E402

from scenic.core.simulators import Simulation, Simulator  # noqa: E402
from scenic.core.vectors import Vector  # noqa: E402

from . import explorer  # noqa: E402


class ScriptedSimulator(Simulator):
    """Simulator whose interface answers are scripted / explored.

    schedule: None (default order), "explore" (every permutation through the explorer)
    or a list of permutations (one per step; missing = identity).
    faults: dict site -> visit index at which to raise (sites: create, step, getprops,
    exec, destroy, schedule).
    """

    def __init__(self, schedule=None, faults=None, fault_exc=None, drift=0.0, perturb=None):
        super().__init__()
        self.schedule = schedule
        self.faults = faults or {}
        self.fault_exc = fault_exc or (lambda: RuntimeError("injected simulator fault"))
        self.drift = drift
        self.perturb = perturb  # callable(obj_index, prop, time, value) -> value
        self.last = None

    def createSimulation(self, scene, **kwargs):
        return ScriptedSimulation(scene, self, **kwargs)


class ScriptedSimulation(Simulation):
    def __init__(self, scene, simulator, **kwargs):
        self.sim = simulator
        simulator.last = self
        self.visits = {}
        self.chosen_schedule = []
        super().__init__(scene, **kwargs)

    # -- fault sites -------------------------------------------------------------
    def _visit(self, site):
        i = self.visits.get(site, 0)
        self.visits[site] = i + 1
        # simulator-side fault sites share the probe's visit counter so that one global
        # index enumerates every crash point of a run
        probe._site("sim:" + site)
        if self.sim.faults.get(site) == i:
            raise self.sim.fault_exc()

    def _log(self, tag):
        probe.STATE.log.append((self.currentTime, tag))

    # -- Simulation interface ------------------------------------------------------
    def setup(self):
        # simulator-specific initialisation (connecting, loading a world) happens before the
        # objects are created, as in the real interfaces
        self._visit("setup")
        super().setup()

    def createObjectInSimulator(self, obj):
        self._log(f"create:{getattr(obj, 'name', '?')}")
        self._visit("create")

    def actionsAreCompatible(self, agent, actions):
        return True

    def scheduleForAgents(self):
        agents = list(self.agents)
        n = len(agents)
        sched = self.sim.schedule
        perm = tuple(range(n))
        if n > 1 and sched is not None:
            perms = list(itertools.permutations(range(n)))
            if sched == "explore":
                perm = perms[explorer.choose(len(perms), tag="sched")]
            else:
                t = self.currentTime
                if t < len(sched) and sched[t] is not None:
                    perm = tuple(sched[t])
                    if len(perm) != n:
                        perm = tuple(range(n))
        self.chosen_schedule.append(perm)
        self._visit("schedule")
        return [agents[i] for i in perm]

    def executeActions(self, allActions):
        entry = []
        for agent, actions in allActions.items():
            entry.append((getattr(agent, "name", "?"), [getattr(a, "tag", repr(a)) for a in actions]))
        self._log(("exec", entry))
        self._visit("exec")
        super().executeActions(allActions)

    def step(self):
        self._log("step")
        self._visit("step")
        if self.sim.drift:
            for obj in self.objects:
                obj.position += Vector(0, self.sim.drift)

    def updateObjects(self):
        self._log("update")
        super().updateObjects()

    def getProperties(self, obj, properties):
        self._visit("getprops")
        vals = dict(
            position=obj.position,
            yaw=obj.yaw,
            pitch=obj.pitch,
            roll=obj.roll,
            velocity=Vector(0, 0, 0),
            angularVelocity=Vector(0, 0, 0),
            speed=0.0,
            angularSpeed=0.0,
        )
        for prop in properties:
            if prop not in vals:
                vals[prop] = None
        if self.sim.perturb is not None:
            idx = self.objects.index(obj)
            for prop in list(vals):
                vals[prop] = self.sim.perturb(idx, prop, self.currentTime, vals[prop])
        return vals

    def destroy(self):
        self._log("destroy")
        self._visit("destroy")
        super().destroy()


def compile_scenario(text, mode2D=False, **kw):
    import scenic

    LEFTOVER.extend(veneer_dirt(reset=True))
    return scenic.scenarioFromString(text, mode2D=mode2D, **kw)


LEFTOVER = []  # dirt found (and cleaned) before a compile/run started; C14 judges it


def veneer_dirt(reset=True):
    """Names of veneer globals that are not in their pristine (inactive) state."""
    import scenic.syntax.veneer as v

    dirt = []
    pristine = dict(
        activity=0, currentSimulation=None, currentScenario=None, currentBehavior=None, evaluatingRequirement=False,
        evaluatingGuard=False, mode2D=False, lockedParameters=None, lockedModel=None,
    )
    for name, want in pristine.items():
        if not hasattr(v, name):
            continue
        have = getattr(v, name)
        if name == "lockedParameters":
            ok = not have
        else:
            ok = have == want if isinstance(want, (int, bool)) else have is want
        if not ok:
            dirt.append(name)
            if reset:
                setattr(v, name, want if name != "lockedParameters" else set())
    for name in ("runningScenarios", "scenarioStack", "_globalParameters"):
        if hasattr(v, name) and getattr(v, name):
            dirt.append(name)
            if reset:
                setattr(v, name, type(getattr(v, name))())
    return dirt


def simulate(scene, *, tables=None, default=False, schedule=None, maxSteps=None, timestep=1, raiseGuardViolations=False, faults=None, fault=None, **kw):
    """Run one simulation of `scene` with scripted environment answers.

    Returns dict(outcome=..., log=[...], ...).  outcome is one of
      ("done", terminationType name, currentTime, n_states, n_actions)
      ("rejected", time)
      ("guard", exception class name, time)
      ("error", exception class name, message)
    """
    from scenic.core.dynamics.guards import GuardViolation

    LEFTOVER.extend(veneer_dirt(reset=True))
    probe.STATE.reset(tables=tables, fault=fault, default=default)
    simulator = ScriptedSimulator(schedule=schedule, faults=faults)
    res = {"log": probe.STATE.log}
    try:
        return _simulate(simulator, scene, res, maxSteps, timestep, raiseGuardViolations, kw)
    finally:
        # orphaned generators of a failed run are closed when its traceback is released,
        # i.e. by now; record what that left behind (C14 judges it) and clean up so that the
        # next run starts from a pristine interpreter state
        res["veneer_dirty"] = veneer_dirt(reset=True)


def _simulate(simulator, scene, res, maxSteps, timestep, raiseGuardViolations, kw):
    from scenic.core.dynamics.guards import GuardViolation

    try:
        sim = simulator.simulate(scene, maxSteps=maxSteps, timestep=timestep, maxIterations=1, raiseGuardViolations=raiseGuardViolations, **kw)
    except GuardViolation as e:
        last = simulator.last
        res["outcome"] = ("guard", type(e).__name__, last.currentTime if last else None)
        res["exception"] = e
        return res
    except (Exception, probe.HangDetected) as e:  # noqa: BLE001 - the harness observes any escape
        res["outcome"] = ("error", type(e).__name__, str(e)[:200])
        res["exception"] = e
        res["simulation"] = simulator.last
        return res
    last = simulator.last
    res["simulation"] = last
    res["schedule"] = list(last.chosen_schedule) if last else []
    if sim is None:
        res["outcome"] = ("rejected", last.currentTime)
    else:
        r = sim.result
        res["outcome"] = ("done", r.terminationType.name, sim.currentTime, len(r.trajectory), len(r.actions))
        res["result"] = r
    return res


def normalize_log(log):
    """JSON/tuple-friendly canonical form of an event log."""
    out = []
    for t, tag in log:
        if isinstance(tag, tuple) and tag and tag[0] == "exec":
            tag = ("exec", tuple((a, tuple(acts)) for a, acts in tag[1]))
        out.append((t, tag))
    return out
