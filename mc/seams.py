"""Harness-side seams that put Scenic's nondeterminism under the explorer (DESIGN §2.2).

Nothing here edits /repo: every seam replaces a module attribute for the duration of a
``with`` block and restores it afterwards.
"""

from __future__ import annotations

import contextlib
import itertools
import math
import random
from fractions import Fraction

from . import explorer
from .explorer import HarnessError, OutOfFragment, choose

# ---------------------------------------------------------------------------------
# RngSeam
# ---------------------------------------------------------------------------------


class LazyUniform(float):
    """An undetermined draw u ~ U[0,1) seen through an affine map a*u+b (a>0).

    The float value is the image of the current interval's midpoint (only used if
    the object escapes; escaping arithmetic raises OutOfFragment).  Comparisons with
    a constant split the interval with exact weights through the explorer.
    """

    __slots__ = ("cell", "a", "b")

    def __new__(cls, cell, a=Fraction(1), b=Fraction(0)):
        lo, hi = cell[0], cell[1]
        self = super().__new__(cls, float(a * (lo + hi) / 2 + b))
        self.cell = cell  # shared mutable [lo, hi]
        self.a = a
        self.b = b
        return self

    # -- interval splitting --------------------------------------------------
    def _below(self, t, strict_tag):
        """Decide whether value < t (ties have measure zero)."""
        t = _frac(t)
        lo, hi = self.cell
        # threshold in u space
        u = (t - self.b) / self.a
        if u <= lo:
            return False
        if u >= hi:
            return True
        w_below = (u - lo) / (hi - lo)
        c = choose(2, weights=(w_below, 1 - w_below), tag="U" + strict_tag)
        if c == 0:
            self.cell[1] = u
            return True
        else:
            self.cell[0] = u
            return False

    def __lt__(self, other):
        if isinstance(other, LazyUniform):
            raise OutOfFragment("comparison of two lazy uniforms")
        return self._below(other, "<")

    def __le__(self, other):
        if isinstance(other, LazyUniform):
            raise OutOfFragment("comparison of two lazy uniforms")
        return self._below(other, "<")

    def __gt__(self, other):
        if isinstance(other, LazyUniform):
            raise OutOfFragment("comparison of two lazy uniforms")
        return not self._below(other, "<")

    def __ge__(self, other):
        if isinstance(other, LazyUniform):
            raise OutOfFragment("comparison of two lazy uniforms")
        return not self._below(other, "<")

    def __eq__(self, other):
        return False

    def __ne__(self, other):
        return True

    __hash__ = None

    # -- affine maps -----------------------------------------------------------
    def __mul__(self, k):
        if isinstance(k, LazyUniform) or not isinstance(k, (int, float, Fraction)):
            raise OutOfFragment("lazy uniform multiplied by non-constant")
        k = _frac(k)
        if k == 0:
            return 0.0
        if k < 0:
            raise OutOfFragment("negative scaling of lazy uniform")
        return LazyUniform(self.cell, self.a * k, self.b * k)

    __rmul__ = __mul__

    def __add__(self, k):
        if isinstance(k, LazyUniform) or not isinstance(k, (int, float, Fraction)):
            raise OutOfFragment("lazy uniform added to non-constant")
        return LazyUniform(self.cell, self.a, self.b + _frac(k))

    __radd__ = __add__

    def __sub__(self, k):
        if isinstance(k, LazyUniform) or not isinstance(k, (int, float, Fraction)):
            raise OutOfFragment("lazy uniform minus non-constant")
        return LazyUniform(self.cell, self.a, self.b - _frac(k))

    def __floor__(self):
        lo, hi = self.cell
        vlo, vhi = self.a * lo + self.b, self.a * hi + self.b
        first = math.floor(vlo)
        last = math.ceil(vhi) - 1
        if first == last:
            return first
        cells = []
        for k in range(first, last + 1):
            l = max(vlo, Fraction(k))
            h = min(vhi, Fraction(k + 1))
            cells.append((k, l, h))
        weights = [(h - l) / (vhi - vlo) for k, l, h in cells]
        c = choose(len(cells), weights=weights, tag="Ufloor")
        k, l, h = cells[c]
        self.cell[0] = (l - self.b) / self.a
        self.cell[1] = (h - self.b) / self.a
        return k

    def __int__(self):
        return self.__floor__()

    __trunc__ = __int__

    def _escape(self, *a, **k):
        raise OutOfFragment("lazy uniform escaped into arithmetic")

    __truediv__ = __rtruediv__ = __rsub__ = __pow__ = __rpow__ = _escape
    __neg__ = __abs__ = __floordiv__ = __mod__ = __round__ = _escape
    __ceil__ = _escape

    def __repr__(self):
        return f"LazyUniform({self.a}*[{self.cell[0]},{self.cell[1]})+{self.b})"


def _frac(x):
    if isinstance(x, Fraction):
        return x
    if isinstance(x, int):
        return Fraction(x)
    if isinstance(x, float):
        if x != x or x in (math.inf, -math.inf):
            raise OutOfFragment("non-finite threshold")
        return Fraction(x)  # exact binary value
    raise OutOfFragment(f"comparison of lazy uniform with {type(x).__name__}")


class ExplorerRandom(random.Random):
    """random.Random whose primitives are answered by the explorer."""

    _mode = "exact"  # or "lattice"
    _lattice_n = 8

    def random(self):
        if ExplorerRandom._mode == "lattice":
            n = ExplorerRandom._lattice_n
            i = choose(n, tag="Ulat")
            return (2 * i + 1) / (2 * n)
        return LazyUniform([Fraction(0), Fraction(1)])

    def _randbelow(self, n):
        if n <= 0:
            raise ValueError("empty range")
        if n == 1:
            return 0
        return choose(n, tag="randbelow")

    def getrandbits(self, k):
        if k <= 0:
            return 0
        if k > 16:
            raise OutOfFragment("getrandbits too wide")
        return choose(1 << k, tag="bits")

    def gauss(self, mu=0.0, sigma=1.0):
        raise OutOfFragment("gauss")

    normalvariate = gauss

    def randbytes(self, n):
        raise OutOfFragment("randbytes")

    def seed(self, *a, **k):
        return None

    def getstate(self):
        return ("explorer",)

    def setstate(self, st):
        return None

    # random.uniform: a + (b-a)*random(); keep exact when a,b constants
    def uniform(self, a, b):
        u = self.random()
        if isinstance(u, LazyUniform):
            if b < a:
                raise OutOfFragment("uniform with b<a")
            if a == b:
                return a
            return u * (b - a) + a
        return a + (b - a) * u

    def triangular(self, low=0.0, high=1.0, mode=None):
        u = self.random()
        if isinstance(u, LazyUniform):
            raise OutOfFragment("triangular in exact mode")
        # copy of CPython's algorithm
        try:
            c = 0.5 if mode is None else (mode - low) / (high - low)
        except ZeroDivisionError:
            return low
        if u > c:
            u = 1.0 - u
            c = 1.0 - c
            low, high = high, low
        return low + (high - low) * math.sqrt(u * c)


_MODULE_FUNCS = (
    "seed random uniform triangular randint choice randrange sample shuffle choices "
    "normalvariate lognormvariate expovariate vonmisesvariate gammavariate gauss "
    "betavariate paretovariate weibullvariate getstate setstate getrandbits randbytes"
).split()


@contextlib.contextmanager
def rng_seam(mode="exact", lattice_n=8):
    """All calls to ``random.*`` module functions go through the explorer."""
    inst = random._inst
    saved_funcs = {name: getattr(random, name) for name in _MODULE_FUNCS if hasattr(random, name)}
    real_state = random.Random.getstate(inst)
    old_class = inst.__class__
    old_mode, old_n = ExplorerRandom._mode, ExplorerRandom._lattice_n
    ExplorerRandom._mode, ExplorerRandom._lattice_n = mode, lattice_n
    inst.__class__ = ExplorerRandom
    try:
        for name in saved_funcs:
            setattr(random, name, getattr(inst, name))
        yield
    finally:
        inst.__class__ = old_class
        for name, f in saved_funcs.items():
            setattr(random, name, f)
        random.Random.setstate(inst, real_state)
        ExplorerRandom._mode, ExplorerRandom._lattice_n = old_mode, old_n


def rng_selftest():
    """Start-up assumption check (DESIGN C01 'A'): CPython's randint / choices /
    choice / randrange / shuffle reduce to the two primitives we intercept."""
    from .explorer import explore_all

    def prog():
        return (
            random.randint(1, 3),
            random.choices("ab", cum_weights=(1, 3))[0],
            random.choice("xy"),
            random.random() <= 0.25,
            random.choices("pq", weights=[1, 1])[0],
            random.randrange(2),
        )

    with rng_seam():
        runs, stats = explore_all(prog)
    total = sum(ex.weight for ex, _ in runs)
    if total != 1:
        raise HarnessError(f"rng selftest: leaf weights sum to {total}")
    dist = {}
    for ex, r in runs:
        dist[r] = dist.get(r, 0) + ex.weight
    if len(dist) != 3 * 2 * 2 * 2 * 2 * 2:
        raise HarnessError(f"rng selftest: {len(dist)} outcomes")
    exp = Fraction(1, 3) * Fraction(1, 3) * Fraction(1, 2) * Fraction(1, 4) * Fraction(1, 2) * Fraction(1, 2)
    if dist[(1, "a", "x", True, "p", 0)] != exp:
        raise HarnessError("rng selftest: wrong weight")
    # the real generator must be restored
    a = random.random()
    if isinstance(a, LazyUniform):
        raise HarnessError("rng seam not restored")
    return True


# ---------------------------------------------------------------------------------
# ClockSeam
# ---------------------------------------------------------------------------------


class ScriptedClock:
    """Stands in for the ``time`` module inside scenic.core.sample_checking.

    perf_counter() is called twice per requirement evaluation (start/stop).  Every
    second call advances the clock by a duration picked by the explorer from the
    alphabet; alternative 0 is the fastest.
    """

    def __init__(self, alphabet=(1.0, 4.0, 16.0), chooser=None):
        self.alphabet = alphabet
        self.now = 0.0
        self.calls = 0
        self.chooser = chooser
        self.durations = []

    def perf_counter(self):
        self.calls += 1
        if self.calls % 2 == 0:
            if self.chooser is not None:
                d = self.chooser(len(self.durations))
            else:
                d = self.alphabet[choose(len(self.alphabet), tag="clock")]
            self.durations.append(d)
            self.now += d
        return self.now

    def __getattr__(self, name):
        import time as _t

        return getattr(_t, name)


@contextlib.contextmanager
def clock_seam(clock):
    import scenic.core.sample_checking as sc

    if not hasattr(sc, "time"):
        raise HarnessError("seam target scenic.core.sample_checking.time is gone")
    old = sc.time
    sc.time = clock
    try:
        yield clock
    finally:
        sc.time = old


# ---------------------------------------------------------------------------------
# SetOrderSeam
# ---------------------------------------------------------------------------------


class ScriptedSet:
    """Insertion-ordered set whose iteration order is a permutation picked by a
    chooser (identity-hashed elements: any order is a possible memory layout)."""

    _perm_source = None  # callable(n, set_index) -> permutation tuple
    _counter = 0
    instances = []

    def __init__(self, it=()):
        self._d = {}
        for x in it:
            self._d[x] = None
        ScriptedSet.instances.append(self)

    def add(self, x):
        self._d[x] = None

    def update(self, *others):
        for o in others:
            for x in o:
                self._d[x] = None

    def discard(self, x):
        self._d.pop(x, None)

    def remove(self, x):
        del self._d[x]

    def __contains__(self, x):
        return x in self._d

    def __len__(self):
        return len(self._d)

    def __bool__(self):
        return bool(self._d)

    def __iter__(self):
        items = list(self._d)
        n = len(items)
        if n <= 1 or ScriptedSet._perm_source is None:
            return iter(items)
        perm = ScriptedSet._perm_source(n, items)
        return iter([items[i] for i in perm])

    def __or__(self, other):
        s = ScriptedSet(self)
        s.update(other)
        return s

    __ror__ = __or__

    def union(self, *others):
        s = ScriptedSet(self)
        s.update(*others)
        return s

    def __and__(self, other):
        return ScriptedSet(x for x in self._d if x in other)

    def __sub__(self, other):
        return ScriptedSet(x for x in self._d if x not in other)

    def copy(self):
        return ScriptedSet(self)

    def issubset(self, other):
        return all(x in other for x in self._d)

    def issuperset(self, other):
        return all(x in self._d for x in other)

    def isdisjoint(self, other):
        return not any(x in other for x in self._d)

    def intersection(self, *others):
        return ScriptedSet(x for x in self._d if all(x in o for o in others))

    def difference(self, *others):
        return ScriptedSet(x for x in self._d if not any(x in o for o in others))

    def pop(self):
        k = next(iter(self._d))
        del self._d[k]
        return k

    def clear(self):
        self._d.clear()

    def __eq__(self, other):
        try:
            return set(self._d) == set(other)
        except TypeError:
            return NotImplemented

    def __hash__(self):  # stands in for frozenset too
        return hash(frozenset(self._d))

    def __le__(self, other):
        return self.issubset(other)

    def __ge__(self, other):
        return self.issuperset(other)

    def __repr__(self):
        return f"ScriptedSet({list(self._d)!r})"


@contextlib.contextmanager
def set_order_seam(perm_source, modules=("scenic.core.requirements", "scenic.core.dynamics.scenarios", "scenic.core.scenarios"), names=("set",)):
    """Replace the names `set` (and, if asked, `frozenset`) seen by the given modules by
    ScriptedSet, whose iteration order is decided by perm_source."""
    import importlib

    mods = [importlib.import_module(m) for m in modules]
    saved = []
    ScriptedSet._perm_source = staticmethod(perm_source) if perm_source else None
    ScriptedSet.instances = []
    for m in mods:
        for nm in names:
            saved.append((m, nm, m.__dict__.get(nm, _MISSING)))
            m.__dict__[nm] = ScriptedSet
    try:
        yield
    finally:
        for m, nm, old in saved:
            if old is _MISSING:
                m.__dict__.pop(nm, None)
            else:
                m.__dict__[nm] = old
        ScriptedSet._perm_source = None


_MISSING = object()


def all_permutations(n):
    return list(itertools.permutations(range(n)))
