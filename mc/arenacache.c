/* Caching arena allocator for CPython (installed with PyObject_SetArenaAllocator).
 *
 * CPython 3.12 allocates its 16 KiB frame "data stack" chunks and its obmalloc arenas
 * with mmap and frees them with munmap the moment they are empty.  Deeply recursive
 * code (the pegen parser) crosses chunk boundaries thousands of times per parse, and in
 * this VM 16 worker processes doing ~4000 mmap/munmap pairs per program spend almost
 * all their time in the kernel.  This shim keeps freed blocks on a small free list.
 * It is compatible with blocks allocated by the default allocator (plain mmap/munmap).
 * Only performance is affected; called with the GIL held.
 */
#include <stddef.h>
#include <string.h>
#include <sys/mman.h>

#define NSMALL 256
#define NBIG 16
#define SMALL ((size_t)16384)
#define BIG ((size_t)1 << 20)

static void *small_cache[NSMALL];
static int nsmall;
static void *big_cache[NBIG];
static int nbig;

void *arena_alloc(void *ctx, size_t size) {
    void *p;
    (void)ctx;
    if (size == SMALL && nsmall > 0) {
        p = small_cache[--nsmall];
        memset(p, 0, SMALL);
        return p;
    }
    if (size == BIG && nbig > 0) {
        p = big_cache[--nbig];
        memset(p, 0, BIG);
        return p;
    }
    p = mmap(NULL, size, PROT_READ | PROT_WRITE, MAP_PRIVATE | MAP_ANONYMOUS, -1, 0);
    return p == MAP_FAILED ? NULL : p;
}

void arena_free(void *ctx, void *p, size_t size) {
    (void)ctx;
    if (size == SMALL && nsmall < NSMALL) {
        small_cache[nsmall++] = p;
        return;
    }
    if (size == BIG && nbig < NBIG) {
        big_cache[nbig++] = p;
        return;
    }
    munmap(p, size);
}
