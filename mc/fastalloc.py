"""Install the caching arena allocator (mc/arenacache.c) — performance only."""

import ctypes
import os
import pathlib
import subprocess

_HERE = pathlib.Path(__file__).resolve().parent
_SO = _HERE.parent / ".build" / "arenacache.so"
_keep = []


def build():
    _SO.parent.mkdir(exist_ok=True)
    src = _HERE / "arenacache.c"
    if _SO.exists() and _SO.stat().st_mtime >= src.stat().st_mtime:
        return True
    tmp = _SO.with_suffix(f".{os.getpid()}.so")
    r = subprocess.run(["gcc", "-O2", "-shared", "-fPIC", "-o", str(tmp), str(src)], capture_output=True, text=True)
    if r.returncode != 0:
        return False
    os.replace(tmp, _SO)
    return True


def install():
    if _keep or os.environ.get("VERIF_NO_FASTALLOC"):
        return bool(_keep)
    try:
        if not build():
            return False
        lib = ctypes.CDLL(str(_SO))

        class Alloc(ctypes.Structure):
            _fields_ = [("ctx", ctypes.c_void_p), ("alloc", ctypes.c_void_p), ("free", ctypes.c_void_p)]

        a = Alloc(None, ctypes.cast(lib.arena_alloc, ctypes.c_void_p), ctypes.cast(lib.arena_free, ctypes.c_void_p))
        ctypes.pythonapi.PyObject_SetArenaAllocator(ctypes.byref(a))
        _keep.extend([lib, a])
        return True
    except Exception:
        return False
