"""Stateless choice explorer for sequential code (DESIGN.md §2.1).

The code under test calls ``choose(n, weights, tag)`` (through the seams in
``mc.seams``) whenever its environment must answer.  An execution is identified by
its list of choices.  ``explore`` enumerates *all* executions depth first (optionally
bounded by the number of non-default choices), replaying each prefix exactly.
"""

from __future__ import annotations

from fractions import Fraction
import contextlib


class HarnessError(Exception):
    """The harness itself is inconsistent (replay divergence, lost seam...)."""


class OutOfFragment(Exception):
    """The program left the fragment the explorer can enumerate exactly."""


class _Point:
    __slots__ = ("n", "choice", "tag", "weights")

    def __init__(self, n, choice, tag, weights):
        self.n, self.choice, self.tag, self.weights = n, choice, tag, weights


class Execution:
    """One run of the code under test with a scripted prefix of choices."""

    def __init__(self, prefix=(), record=None):
        self.prefix = list(prefix)
        self.points = []
        self.record = record  # optional recorded (n, tag) list to validate replay

    # -- called by seams ---------------------------------------------------
    def choose(self, n, weights=None, tag=None):
        if n <= 0:
            raise HarnessError(f"choose() with n={n} tag={tag}")
        i = len(self.points)
        if weights is not None:
            weights = tuple(Fraction(w) for w in weights)
            if len(weights) != n:
                raise HarnessError("weights arity")
        if i < len(self.prefix):
            c = self.prefix[i]
            if not 0 <= c < n:
                raise HarnessError(
                    f"replay divergence: choice {c} out of range {n} at point {i} tag={tag}"
                )
            if self.record is not None and i < len(self.record):
                rn, rtag = self.record[i]
                if rn != n or rtag != tag:
                    raise HarnessError(
                        f"replay divergence at point {i}: recorded ({rn},{rtag}) now ({n},{tag})"
                    )
        else:
            c = 0
            if weights is not None:
                # default = first alternative with positive weight
                while c < n and weights[c] == 0:
                    c += 1
                if c == n:
                    raise HarnessError("all weights zero")
        self.points.append(_Point(n, c, tag, weights))
        return c

    # -- results -------------------------------------------------------------
    @property
    def choices(self):
        return [p.choice for p in self.points]

    @property
    def signature(self):
        return [(p.n, p.tag) for p in self.points]

    @property
    def weight(self):
        w = Fraction(1)
        for p in self.points:
            if p.weights is not None:
                w *= p.weights[p.choice]
            else:
                w *= Fraction(1, p.n)
        return w

    @property
    def deviations(self):
        return sum(1 for p in self.points if p.choice != 0)


_current = None


def current():
    return _current


@contextlib.contextmanager
def running(execution):
    global _current
    old = _current
    _current = execution
    try:
        yield execution
    finally:
        _current = old


def choose(n, weights=None, tag=None):
    """Ask the explorer for one of n alternatives (0 = default)."""
    if _current is None:
        raise HarnessError("choose() called outside an exploration")
    return _current.choose(n, weights, tag)


def explore(fn, *, bound=None, max_executions=None, order="dfs", bound_tags=None):
    """Enumerate executions of ``fn()``.

    Yields ``(execution, result)`` where result is whatever ``fn`` returned (fn must
    catch what it wants to observe).  ``bound``: max number of non-default choices
    (counted only at choice points whose tag is in ``bound_tags`` if that is given; the
    other choice points are always explored completely).
    Zero-weight alternatives are never explored.  Returns normally when the space is
    exhausted; sets ``explore.capped`` attribute on the generator's stats object.
    """
    stats = ExploreStats()
    stack = [([], None)]
    while stack:
        if max_executions is not None and stats.executions >= max_executions:
            stats.capped = True
            break
        prefix, record = stack.pop()
        ex = Execution(prefix, record)
        with running(ex):
            result = fn()
        if len(ex.points) < len(prefix):
            raise HarnessError(
                f"replay divergence: prefix of {len(prefix)} choices but only {len(ex.points)} points"
            )
        stats.executions += 1
        stats.points += len(ex.points)
        stats.max_depth = max(stats.max_depth, len(ex.points))
        yield ex, result, stats
        choices = ex.choices
        sig = ex.signature
        # push alternatives in reverse so that simplest-first order is kept
        new = []
        dev = 0
        for i, p in enumerate(ex.points):
            counted = bound_tags is None or p.tag in bound_tags
            if i >= len(prefix):
                if bound is None or not counted or dev + 1 <= bound:
                    for alt in range(p.choice + 1, p.n):
                        if p.weights is not None and p.weights[alt] == 0:
                            continue
                        new.append((choices[:i] + [alt], sig[: i + 1]))
            if p.choice != 0 and counted:
                dev += 1
        stack.extend(reversed(new))
    stats.done = True


class ExploreStats:
    def __init__(self):
        self.executions = 0
        self.points = 0
        self.max_depth = 0
        self.capped = False
        self.done = False


def explore_all(fn, **kw):
    """Run the exploration to completion; return (list of (execution, result)), stats."""
    out = []
    stats = None
    for ex, res, stats in explore(fn, **kw):
        out.append((ex, res))
    return out, stats
