"""Runner: ./check <ID> --tier quick|thorough [--replay file]   (DESIGN §2.5)

Exit 0: property held on everything explored (known findings are printed, not failed).
Exit 1: VIOLATION property=<id> replay=<path>
Exit 2: harness error (never used to hide a violation).
"""

from __future__ import annotations

import argparse
import hashlib
import importlib
import json
import os
import pathlib
import re
import subprocess
import sys
import time
import traceback

VERIF = pathlib.Path(__file__).resolve().parent.parent
REPO = pathlib.Path(os.environ.get("VERIF_REPO", "/repo"))
PY = "/venv/bin/python"
GUARD = "SCENIC_VERIF"

LEVELS = {
    "exploration",
    "fault_enumeration",
    "model_checking",
    "proof",
    "translation_validation",
    "other",
}


class Ctx:
    """What a check module sees."""

    def __init__(self, pid, tier, seed, workers):
        self.property_id = pid
        self.tier = tier
        self.seed = seed
        self.workers = workers
        self.cov = {}  # coverage keys
        self.assumptions = []
        self.violations = []  # dicts: signature, description, case
        self.notes = []
        self._pool = None
        self.t0 = time.time()
        self.capped = False

    # -- parallel map over cases -------------------------------------------
    def pmap(self, func, items, chunksize=1):
        """Ordered parallel map in forked worker processes (started once)."""
        items = list(items)
        if self.workers <= 1 or len(items) <= 1:
            for it in items:
                yield func(it)
            return
        import multiprocessing as mp

        if self._pool is None:
            # move everything allocated so far out of the collector's reach: otherwise the first
            # full collection in each forked worker touches (and so copies) the whole inherited heap
            import gc

            gc.collect()
            gc.freeze()
            ctx = mp.get_context("fork")
            self._pool = ctx.Pool(self.workers, initializer=_worker_init)
        for r in self._pool.imap(func, items, chunksize):
            yield r

    def close(self):
        if self._pool is not None:
            self._pool.terminate()
            self._pool.join()
            self._pool = None

    def rotate(self, items):
        """VERIF_SEED only rotates the enumeration order, never selects a subset."""
        items = list(items)
        if not items:
            return items
        k = self.seed % len(items)
        return items[k:] + items[:k]

    def violation(self, signature, description, case):
        self.violations.append(
            {"signature": signature, "description": description, "case": case}
        )

    def elapsed(self):
        return time.time() - self.t0


def _worker_init():
    # workers must not inherit a live explorer
    from . import explorer

    explorer._current = None


# -------------------------------------------------------------------------------
def ensure_parser():
    """Regenerate src/scenic/syntax/parser.py from scenic.gram (git-ignored, generated)
    so that grammar edits in the working tree are seen.  Atomic replace, only if the
    generated text differs."""
    syn = REPO / "src" / "scenic" / "syntax"
    gram, parser = syn / "scenic.gram", syn / "parser.py"
    if not gram.exists():
        raise SystemExit("HARNESS-ERROR scenic.gram missing")
    build = VERIF / ".build"
    build.mkdir(exist_ok=True)
    stamp = build / ("parser.%s.stamp" % hashlib.sha256(str(REPO).encode()).hexdigest()[:8])
    digest = hashlib.sha256(gram.read_bytes()).hexdigest()
    if parser.exists() and stamp.exists():
        try:
            st = json.loads(stamp.read_text())
            if st.get("gram") == digest and st.get("parser") == hashlib.sha256(parser.read_bytes()).hexdigest():
                return
        except Exception:
            pass
    tmp = build / f"parser.{os.getpid()}.py"
    r = subprocess.run(
        [PY, "-m", "pegen", str(gram), "-o", str(tmp)],
        cwd=str(REPO),
        capture_output=True,
        text=True,
    )
    if r.returncode != 0 or not tmp.exists():
        # a grammar that does not build cannot "compile"; this is a build failure of the tree
        print(r.stderr[-2000:])
        raise SystemExit("HARNESS-ERROR parser generation failed")
    new = tmp.read_bytes()
    if not parser.exists() or parser.read_bytes() != new:
        os.replace(tmp, parser)
    else:
        tmp.unlink()
    stamp.write_text(json.dumps({"gram": digest, "parser": hashlib.sha256(new).hexdigest()}))


def warmup():
    """Load Scenic's lazily imported dependencies in the parent, before workers fork."""
    import scenic

    sc = scenic.scenarioFromString("ego = new Object\nnew Object at (5, 0, 0), with shape SpheroidShape()")
    sc.generate(maxIterations=10)


def load_known():
    p = VERIF / "known_findings.json"
    if not p.exists():
        return []
    return json.loads(p.read_text()).get("findings", [])


def match_known(pid, v, known):
    for k in known:
        if k.get("property") != pid or k.get("status") != "known":
            continue
        if re.fullmatch(k["signature"], v["signature"]):
            return k
    return None


def write_replay(pid, v):
    d = VERIF / "replay" / pid
    d.mkdir(parents=True, exist_ok=True)
    blob = json.dumps({"property": pid, **v}, sort_keys=True, default=str, indent=1)
    h = hashlib.sha256(blob.encode()).hexdigest()[:12]
    p = d / f"{h}.json"
    p.write_text(blob)
    return p


def validate_evidence(path):
    """Validate against EVIDENCE.schema.json with the tooling venv's jsonschema."""
    schema = "/root/.vp/EVIDENCE.schema.json"
    if not os.path.exists(schema):
        schema = str(VERIF / "mc" / "EVIDENCE.schema.json")
    code = (
        "import json,sys,jsonschema;"
        "jsonschema.validate(json.load(open(sys.argv[1])),json.load(open(sys.argv[2])))"
    )
    for py in ("python3-vt", "/opt/veriftools/pyvenv/bin/python"):
        try:
            r = subprocess.run([py, "-c", code, str(path), schema], capture_output=True, text=True, timeout=60)
        except (FileNotFoundError, subprocess.TimeoutExpired):
            continue
        if r.returncode != 0:
            print(r.stderr[-1500:])
            raise SystemExit("HARNESS-ERROR evidence does not validate")
        return True
    return False


def main(argv=None):
    ap = argparse.ArgumentParser()
    ap.add_argument("pid")
    ap.add_argument("--tier", default=os.environ.get("VERIF_TIER", "quick"), choices=["quick", "thorough"])
    ap.add_argument("--replay")
    ap.add_argument("--workers", type=int, default=int(os.environ.get("VERIF_WORKERS", "16")))
    ap.add_argument("--no-confirm", action="store_true")
    args = ap.parse_args(argv)
    pid = args.pid.upper()
    seed = int(os.environ.get("VERIF_SEED", "0") or 0)
    os.environ[GUARD] = "1"
    os.environ.setdefault("PYTHONHASHSEED", "0")

    ensure_parser()
    sys.path.insert(0, str(VERIF))
    import scenic

    if not os.path.realpath(scenic.__file__).startswith(os.path.realpath(str(REPO / "src"))):
        print(f"HARNESS-ERROR scenic imported from {scenic.__file__}, expected {REPO}/src")
        return 2
    from . import fastalloc

    fastalloc.install()
    warmup()
    mod = importlib.import_module(f"checks.{pid.lower()}")

    if args.replay:
        data = json.loads(pathlib.Path(args.replay).read_text())
        ctx = Ctx(pid, args.tier, seed, 1)
        try:
            mod.replay(ctx, data["case"])
        except Exception:
            traceback.print_exc()
            print("HARNESS-ERROR during replay")
            return 2
        known = load_known()
        rc = 0
        for v in ctx.violations:
            k = match_known(pid, v, known)
            if k:
                print(f"KNOWN-FINDING: property={pid} {k['description']}")
            else:
                print(f"VIOLATION property={pid} replay={args.replay}")
                print("  signature:", v["signature"])
                print("  " + v["description"].replace("\n", "\n  "))
                rc = 1
        if not ctx.violations:
            print(f"replay: no violation reproduced for {args.replay}")
        return rc

    ctx = Ctx(pid, args.tier, seed, args.workers)
    try:
        mod.run(ctx)
    except SystemExit:
        raise
    except Exception:
        traceback.print_exc()
        print(f"HARNESS-ERROR property={pid} exception in check")
        ctx.close()
        return 2
    finally:
        ctx.close()

    known = load_known()
    matched, fresh = {}, []
    for v in ctx.violations:
        k = match_known(pid, v, known)
        if k:
            matched.setdefault(k["signature"], (k, []))[1].append(v)
        else:
            fresh.append(v)
    for sig, (k, vs) in matched.items():
        print(f"KNOWN-FINDING: property={pid} {k['description']} ({len(vs)} cases)")

    rc = 0
    per_sig = {}
    printed = 0
    confirmed = 0
    for v in fresh:
        rc = 1
        n = per_sig.get(v["signature"], 0)
        per_sig[v["signature"]] = n + 1
        if n >= 2 or printed >= 12:
            continue
        p = write_replay(pid, v)
        # replay discipline: confirm in a fresh process before reporting
        if not args.no_confirm and hasattr(mod, "replay") and confirmed < 2:
            confirmed += 1
            r = subprocess.run(
                [str(VERIF / "check"), pid, "--replay", str(p)],
                cwd=str(VERIF),
                capture_output=True,
                text=True,
                timeout=1800,
            )
            if r.returncode != 1:
                print(r.stdout[-3000:])
                print(r.stderr[-3000:])
                print(f"HARNESS-ERROR nondeterministic replay for {p}")
                return 2
        print(f"VIOLATION property={pid} replay={p}")
        print("  signature:", v["signature"])
        print("  " + str(v["description"]).replace("\n", "\n  ")[:1500])
        printed += 1
    if fresh:
        print(f"{len(fresh)} violating cases, by signature: {per_sig}")

    cov = dict(ctx.cov)
    cov.setdefault("exhaustive", not ctx.capped)
    cov["known_findings_matched"] = sorted(matched)
    ev = {
        "property_id": pid,
        "tier": args.tier,
        "seed": seed,
        "level": mod.LEVEL,
        "coverage": cov,
        "assumptions": ctx.assumptions,
        "wall_s": round(ctx.elapsed(), 2),
        "violations": len(fresh),
    }
    evdir = VERIF / "evidence" if str(REPO) == "/repo" else VERIF / ".build" / "evidence-alt"
    evdir.mkdir(parents=True, exist_ok=True)
    evp = evdir / f"{pid}.json"
    tmp = evp.with_suffix(".tmp")
    tmp.write_text(json.dumps(ev, indent=1, default=str))
    os.replace(tmp, evp)
    validate_evidence(evp)
    for n in ctx.notes:
        print("note:", n)
    summ = {k: v for k, v in cov.items() if isinstance(v, (int, float, bool))}
    print(f"{pid} {args.tier}: {'FAIL' if rc else 'ok'} {summ} wall={ev['wall_s']}s")
    return rc


if __name__ == "__main__":
    sys.exit(main())
